import PngVerif.Proofs.StreamSinkProg
/-!
# C19 for the stream writer under EVERY sink behaviour

`Props/C19.lean` proves the every-sink clauses of C19 for the whole-image API and, for `StreamWriter`, only on a sink
that never fails (`C19_stream_clean_partial`).  Here the stream writer — and programs that mix both APIs — are followed
under ANY `SinkBehaviour` (write failure at any byte offset, once or permanent; flush failure at any call index, once
or permanent), for ANY compressors `E`/`Z`, for ANY arguments, through complete AND abandoned sessions:

* `C19_stream_no_panic`: no call of `runProg` panics — none of the sites `rowSlice`, `toWriteUnderflow`,
  `assertIndexZero`, `unreachableWrapper`, `animWrittenOverflow`, `resetDimUnderflow`, `chunksZero` is reachable;
* `C19_stream_one_iend`: exactly one IEND emission is attempted along the run, it is the LAST entry of the sink's log
  (nothing is written after it, successful or not), and the `Writer` ends closed;
* `C19_stream_failure_reported`: `Ok` from the final `finish` (`Writer::finish` or the owned `StreamWriter::finish`)
  means the log ends with a completely accepted IEND; and if no call of the program returned an error (and no stream
  writer was merely dropped — `Drop` cannot report), the sink accepted every byte of every chunk;
* `C19_stream_call_reports` / `C19_stream_finish_reports` / `C19_stream_new_reports`: the call during which the sink
  refuses a byte returns an error — from every state a session can reach (`C19_stream_reach`), an operation that
  returns `Ok` extended the log only by completely accepted chunks;
* `C19_stream_session_every_sink`: one session (`new`, operations, `finish()`/drop) on an open `Writer`, as a
  statement of its own.

Hypotheses.  Configuration: `c.WellFormed` (only `c.inRange`, `c.Accepted`, `c.NoIend` are used: `_any_args` forms) and
`c.Small` (`8·width·height < 2^64`, so that `next_frame_info` does not saturate).  Arguments: the caller writes no
IEND chunk himself (`Step.noIend`, implied by `Step.inRange`); nothing else — the setters' arguments, buffer sizes,
data lengths are arbitrary, sessions may be abandoned in the middle of an image.  Counter: `c.fctl = none ∨
progCost steps fin < 2^32` — nothing for a file without animation (no frame control ever appears: `Tr.fcNone`), otherwise
every whole-image operation and every stream-writer session counts 1 and every byte handed to a stream writer counts
1: `animation_written` is a `u32` that is incremented once per frame header (abandoned sessions and failed writes
count too, so it is NOT bounded by `num_frames`), and a `write` call emits at most one frame header and consumes at
least one byte.  In the session-level statements this reads `Room w n`.

The invariant (`SWInv`, `Proofs/StreamSinkSW.lean`) follows the partial states listed in `Props/C19.lean`: output pending
in flate2's `zio::Writer` and a chunk buffer left full by a failed `flush_inner` (nothing is assumed about either:
`CWOk`), a row recorded as complete whose compression failed (`index = line_len`, possibly `to_write = 0`, wrapper still
`Zlib`), `Wrapper::Unrecoverable` (the `Writer` released, dropped if owned), and the row geometry
(`to_write + index` is a whole number of rows, both row buffers are `line_len` long).

FALSE as stated in the task ("`finish = Ok` ⇒ every chunk before the IEND was completely accepted", for the whole
log): `C19_stream_finish_whole_log_counterexample` — a sink that fails ONCE, the failing `write` reports the error, the
caller goes on, `flush_inner` is retried by `finish`, which returns `Ok`; the log contains the cut chunk.  This is not
a defect (the error was reported by the call that hit it); the true statements are the ones above.
-/
namespace Png.C19
open Png Png.Val Png.Enc

/-- **No panic, programs over both APIs, every sink** (full statement).  `E`, `Z`: any back-ends (no contract). -/
theorem C19_stream_no_panic (E : Codec) (Z : ZCodec) (c : Cfg) (beh : SinkBehaviour) (steps : List Step) (fin : PFinal)
    (hw : c.WellFormed) (hsm : c.Small) (hr : ∀ s ∈ steps, s.inRange) (_hfr : fin.inRange)
    (hb : c.fctl = none ∨ progCost steps fin < 2 ^ 32) :
    (runProg E Z c beh steps fin).header.isPanic = false ∧
    (runProg E Z c beh steps fin).results.any anyPanic = false ∧
    anyPanic (runProg E Z c beh steps fin).final = false :=
  let h := runProg_ok E Z c beh steps fin hw.1 hw.2.1 (WellFormed.noIend hw) hsm
    (fun s hs => Step.noIend_of_inRange (hr s hs)) hb
  ⟨h.header, h.results, h.final⟩

/-- the same with ANY arguments: all that is asked of the caller is not to write IEND chunks himself -/
theorem C19_stream_no_panic_any_args (E : Codec) (Z : ZCodec) (c : Cfg) (beh : SinkBehaviour) (steps : List Step)
    (fin : PFinal) (hr : c.inRange) (hacc : c.Accepted) (hn : c.NoIend) (hsm : c.Small)
    (hno : ∀ s ∈ steps, s.noIend) (hb : c.fctl = none ∨ progCost steps fin < 2 ^ 32) :
    (runProg E Z c beh steps fin).header.isPanic = false ∧
    (runProg E Z c beh steps fin).results.any anyPanic = false ∧
    anyPanic (runProg E Z c beh steps fin).final = false :=
  let h := runProg_ok E Z c beh steps fin hr hacc hn hsm hno hb
  ⟨h.header, h.results, h.final⟩

/-- everything at once (`ProgOk`: no panic in `header`/`results`/`final`; `Writer` closed; one IEND attempt, the last
    entry of the log; `Ok` from the final `finish` ⇒ complete IEND; no error anywhere ⇒ every byte accepted), with ANY
    arguments and the configuration hypotheses reduced to what is used -/
theorem C19_stream_every_sink_any_args (E : Codec) (Z : ZCodec) (c : Cfg) (beh : SinkBehaviour) (steps : List Step)
    (fin : PFinal) (hr : c.inRange) (hacc : c.Accepted) (hn : c.NoIend) (hsm : c.Small)
    (hno : ∀ s ∈ steps, s.noIend) (hb : c.fctl = none ∨ progCost steps fin < 2 ^ 32) :
    ProgOk steps fin (runProg E Z c beh steps fin) :=
  runProg_ok E Z c beh steps fin hr hacc hn hsm hno hb

/-- **Exactly one IEND, and nothing after it, every sink**: whatever fails — `write_header`, any operation, a stream
    writer's `new`/`write`/`flush`/`finish`, the final `finish` — the `Writer` ends closed, one IEND emission was
    attempted, and that attempt (complete or cut by the sink) is the last entry of the sink's log. -/
theorem C19_stream_one_iend (E : Codec) (Z : ZCodec) (c : Cfg) (beh : SinkBehaviour) (steps : List Step) (fin : PFinal)
    (hw : c.WellFormed) (hsm : c.Small) (hr : ∀ s ∈ steps, s.inRange) (_hfr : fin.inRange)
    (hb : c.fctl = none ∨ progCost steps fin < 2 ^ 32) :
    (runProg E Z c beh steps fin).state.iendWritten = true ∧
    (runProg E Z c beh steps fin).state.sink.iendAttempts = 1 ∧
    ∃ pre k, (runProg E Z c beh steps fin).state.sink.log = pre ++ [⟨.chunk iendChunk, k⟩] :=
  let h := runProg_ok E Z c beh steps fin hw.1 hw.2.1 (WellFormed.noIend hw) hsm
    (fun s hs => Step.noIend_of_inRange (hr s hs)) hb
  ⟨h.iend, h.att, h.last⟩

/-- **`Ok` from `finish` means complete; no error anywhere means every byte was accepted — every sink.**
    (1) `fin.isFinish`: the program ends with `Writer::finish` or with `finish` of an owned stream writer; if that call
    returns `Ok`, the sink's log ends with a completely accepted IEND chunk.
    (2) If moreover `write_header` and every other call returned `Ok`, and every borrowed stream-writer session was
    ended by `finish()` (`Step.endsWithFinish`), every entry of the log is a completely accepted piece: the
    contrapositive is "if the sink ever refused a byte, some call returned an error". -/
theorem C19_stream_failure_reported (E : Codec) (Z : ZCodec) (c : Cfg) (beh : SinkBehaviour) (steps : List Step)
    (fin : PFinal) (hw : c.WellFormed) (hsm : c.Small) (hr : ∀ s ∈ steps, s.inRange) (_hfr : fin.inRange)
    (hb : c.fctl = none ∨ progCost steps fin < 2 ^ 32) (hfin : fin.isFinish = true) :
    ((runProg E Z c beh steps fin).final.getLast? = some .ok →
      ∃ pre, (runProg E Z c beh steps fin).state.sink.log = pre ++ [⟨.chunk iendChunk, 12⟩]) ∧
    ((∀ s ∈ steps, s.endsWithFinish) → (runProg E Z c beh steps fin).header = .ok →
      allOk (runProg E Z c beh steps fin).results → (∀ r ∈ (runProg E Z c beh steps fin).final, r = .ok) →
      ∀ e ∈ (runProg E Z c beh steps fin).state.sink.log, e.complete = true) :=
  let h := runProg_ok E Z c beh steps fin hw.1 hw.2.1 (WellFormed.noIend hw) hsm
    (fun s hs => Step.noIend_of_inRange (hr s hs)) hb
  ⟨h.complete hfin, fun h1 => h.allComplete h1 hfin⟩

/-- every state a stream-writer session can reach — `new` succeeded on an open `Writer`, then any operations with any
    arguments under any sink — satisfies the invariant `SWInv` -/
theorem C19_stream_reach (Z : ZCodec) {w : WState} (h : Live w) (owned : Bool) (size : Nat) (ops : List SOp)
    (hb : Room w (1 + sopsCost ops)) {s0 : SW} {r0 : Res} (hnew : SW.new w owned size = (.inl s0, r0)) :
    ∃ w', SWInv owned (runSOps Z s0 ops).1 w' ∧ w'.animWritten ≤ w.animWritten + 1 + sopsCost ops :=
  session_reach Z h owned size ops hb hnew

/-- **The call during which the sink refuses a byte returns an error** (`write_all`, `flush`, the setters): from any
    state of the invariant, whatever the call handed to the sink is appended to the log, and if the call returns `Ok`
    every appended entry was accepted completely.  `fb`: irrelevant (`writerState`'s fallback, never used). -/
theorem C19_stream_call_reports (Z : ZCodec) {o : Bool} {s : SW} {w : WState} (h : SWInv o s w) (op : SOp)
    (hb : Room w op.cost) (fb : WState) :
    (streamStep Z s op).2.isPanic = false ∧
    ∃ ext, ((streamStep Z s op).1.writerState fb).sink.log = (s.writerState fb).sink.log ++ ext ∧
      ((streamStep Z s op).2 = .ok → ∀ e ∈ ext, e.complete = true) :=
  ⟨(h.step Z op hb _ _ rfl).1, h.step_reports Z op hb fb⟩

/-- the same for `StreamWriter::finish`: the rest of the image data and, for an owned `Writer`, the IEND chunk -/
theorem C19_stream_finish_reports (Z : ZCodec) {o : Bool} {s : SW} {w : WState} (h : SWInv o s w) (fb : WState) :
    (s.finish Z).2.isPanic = false ∧
    ∃ ext, ((s.finish Z).1.writerState fb).sink.log = (s.writerState fb).sink.log ++ ext ∧
      ((s.finish Z).2 = .ok → ∀ e ∈ ext, e.complete = true) :=
  ⟨(h.finish Z _ _ rfl).1, h.finish_reports Z fb⟩

/-- the same for `StreamWriter::new`: if it hands out a stream writer, the frame header got through -/
theorem C19_stream_new_reports {w : WState} (h : Live w) (owned : Bool) (size : Nat) (hb : Room w 1)
    {s0 : SW} {r0 : Res} (hnew : SW.new w owned size = (.inl s0, r0)) (fb : WState) :
    ∃ ext, (s0.writerState fb).sink.log = w.sink.log ++ ext ∧ ∀ e ∈ ext, e.complete = true :=
  new_reports h owned size hb hnew fb

/-- **One stream-writer session under every sink**, as a statement of its own: on an open `Writer` (`Live`: the state
    after a successful `write_header` and after any steps — `C19_stream_live`), `new`, any operations, `finish()` or
    drop: no panic; a borrowed `Writer` comes back open, an owned one closed (`Rel`); the `Writer` changed only by
    `Tr` (static fields and failure schedule unchanged, log extended, at most one IEND attempt — the last entry);
    a session ended by `finish()` in which every call returned `Ok` got every chunk through; `Ok` from the owned
    `finish` means the log ends with a completely accepted IEND. -/
theorem C19_stream_session_every_sink (Z : ZCodec) {w : WState} (h : Live w) (owned : Bool) (size : Nat)
    (ops : List SOp) (fin : Final) (hb : Room w (1 + sopsCost ops)) :
    anyPanic (streamSession Z w owned size ops fin).2 = false ∧
    Rel owned (streamSession Z w owned size ops fin).1 ∧
    Tr (1 + sopsCost ops) (fin = .finish ∧ ∀ r ∈ (streamSession Z w owned size ops fin).2, r = .ok) w
      (streamSession Z w owned size ops fin).1 ∧
    (owned = true → fin = .finish → (streamSession Z w owned size ops fin).2.getLast? = some .ok →
      ∃ pre, (streamSession Z w owned size ops fin).1.sink.log = pre ++ [⟨.chunk iendChunk, 12⟩]) :=
  streamSession_ok Z h owned size ops fin hb _ _ rfl

/-- the `Writer` is open (`Live`) after a successful `write_header` and stays open through any steps, under any sink -/
theorem C19_stream_live (E : Codec) (Z : ZCodec) (c : Cfg) (beh : SinkBehaviour) (steps : List Step)
    (hw : c.WellFormed) (hsm : c.Small) (hr : ∀ s ∈ steps, s.inRange)
    (hb : c.fctl = none ∨ stepsCost steps < 2 ^ 32) (hh : (writeHeader c beh).2 = .ok) :
    Live (Enc.runSteps E Z (writeHeader c beh).1 steps).1 := by
  have hwh : writeHeader c beh = ((writeHeader c beh).1, .ok) := by rw [← hh]
  obtain ⟨hl, han, hfc⟩ := header_live c beh hw.1 hw.2.1 (WellFormed.noIend hw) hsm hwh
  have hroom : Room (writeHeader c beh).1 (stepsCost steps) := by
    rcases hb with hb | hb
    · exact Or.inl (hfc.trans hb)
    · exact Or.inr (by omega)
  exact (runSteps_ok E Z steps hl (fun s hs => Step.noIend_of_inRange (hr s hs)) hroom _ _ rfl).2.1

set_option maxRecDepth 100000 in
/-- **the counter hypothesis is needed**: `wFull` is `Live`, has no `Room`, and the next frame header panics
    (`animation_written += 1`, encoder.rs:1270) — also on a sink that never fails -/
theorem C19_stream_room_needed :
    Live wFull ∧ ¬ Room wFull 1 ∧ (SW.new wFull false 64).2 = .panic .animWrittenOverflow := by
  refine ⟨⟨⟨?_, by decide⟩, Fits.ofSmall (by decide) (by decide), by decide, by decide⟩, ?_, by decide⟩
  · intro f hf
    have : f = { w := 1, h := 1 } := by
      have h2 : wFull.fctl = some { w := 1, h := 1 } := by decide
      rw [h2] at hf; exact (Option.some.inj hf).symm
    subst this; unfold RectOk; decide
  · unfold Room; decide

/-- "`finish = Ok` ⇒ EVERY entry of the log is complete", without asking that the earlier calls returned `Ok` -/
def C19_stream_finish_whole_log_statement : Prop :=
  ∀ (c : Cfg) (beh : SinkBehaviour) (steps : List Step) (fin : PFinal), c.WellFormed → c.Small →
    (∀ s ∈ steps, s.inRange) → fin.inRange → (c.fctl = none ∨ progCost steps fin < 2 ^ 32) → fin.isFinish = true →
    (runProg toyCodec toyZ c beh steps fin).final.getLast? = some .ok →
    ∀ e ∈ (runProg toyCodec toyZ c beh steps fin).state.sink.log, e.complete = true

/-- the witness: a 1x1 picture through an owned stream writer on a sink that fails ONCE at byte 40 (inside the IDAT
    chunk): `new` `Ok`, the `write` reports `Err(io)`, `finish` retries the chunk and returns `Ok`; the log (accepted
    bytes, size of the piece) holds the cut chunk, the whole chunk and the IEND -/
theorem C19_stream_once40_example :
    runOnce40.final = [.ok, .err .io, .ok] ∧
    runOnce40.state.sink.log.map (fun e => (e.accepted, e.piece.size)) = [(8, 8), (25, 25), (7, 15), (15, 15), (12, 12)] :=
  runOnce40_facts

set_option maxRecDepth 100000 in
/-- the statement over the whole log is false (sink that fails once, error reported by the failing call and ignored
    by the caller); what holds is `C19_stream_failure_reported` -/
theorem C19_stream_finish_whole_log_counterexample : ¬ C19_stream_finish_whole_log_statement := by
  intro h
  have := h cfgStill { writeFailAt := some 40, writeOnce := true } [] (.intoStream 64 [.write [7]] .finish)
    (by decide) (by decide) (by decide) (by decide) (by decide) (by decide) (by decide)
  revert this; decide

/-! ## The decided runs of `C19_stream_sink_failures` are instances -/

set_option maxRecDepth 100000

/-- D14: the sink accepts 40 bytes, then fails permanently -/
example : runD14.results.any anyPanic = false ∧ anyPanic runD14.final = false ∧ runD14.state.sink.iendAttempts = 1 :=
  let a := C19_stream_no_panic toyCodec toyZ cfgStill { writeFailAt := some 40 } [] (.intoStream 64 [.write [7]] .finish)
    (by decide) (by decide) (by decide) (by decide) (by decide)
  let b := C19_stream_one_iend toyCodec toyZ cfgStill { writeFailAt := some 40 } [] (.intoStream 64 [.write [7]] .finish)
    (by decide) (by decide) (by decide) (by decide) (by decide)
  ⟨a.2.1, a.2.2, b.2.1⟩

/-- D14 with validation: 1 of 3 declared frames -/
example : anyPanic runD14v.final = false ∧ runD14v.state.sink.iendAttempts = 1 :=
  let a := C19_stream_no_panic toyCodec toyZ { cfgAnim 3 with validate := true } {} [] (.intoStream 64 [.write [7]] .finish)
    (by decide) (by decide) (by decide) (by decide) (by decide)
  let b := C19_stream_one_iend toyCodec toyZ { cfgAnim 3 with validate := true } {} [] (.intoStream 64 [.write [7]] .finish)
    (by decide) (by decide) (by decide) (by decide) (by decide)
  ⟨a.2.2, b.2.1⟩

/-- N8: borrowed stream writer, then `Writer::finish` -/
example : runN8.results.any anyPanic = false ∧ anyPanic runN8.final = false :=
  let a := C19_stream_no_panic toyCodec toyZ { cfgStill with validate := true } {} [.stream 64 [.write [7]] .finish] .finish
    (by decide) (by decide) (by decide) (by decide) (by decide)
  ⟨a.2.1, a.2.2⟩

/-- N1: a requested chunk buffer of one byte -/
example : anyPanic runN1.final = false :=
  (C19_stream_no_panic toyCodec toyZ (cfgAnim 2) {} [] (.intoStream 1 [.write [7]] .finish)
    (by decide) (by decide) (by decide) (by decide) (by decide)).2.2

/-- N2: the sink fails once while the second fcTL is written; the session is dropped -/
example : anyPanic runN2.final = false ∧ runN2.state.sink.iendAttempts = 1 :=
  let a := C19_stream_no_panic toyCodec toyZ (cfgAnim 2) { writeFailAt := some 130, writeOnce := true } []
    (.intoStream 64 [.write [7], .write [8], .write [8]] .drop) (by decide) (by decide) (by decide) (by decide) (by decide)
  let b := C19_stream_one_iend toyCodec toyZ (cfgAnim 2) { writeFailAt := some 130, writeOnce := true } []
    (.intoStream 64 [.write [7], .write [8], .write [8]] .drop) (by decide) (by decide) (by decide) (by decide) (by decide)
  ⟨a.2.2, b.2.1⟩

/-- N9: `write_image_data` fails once between fcTL and IDAT, three stream images later -/
example : runN9.results.any anyPanic = false ∧ anyPanic runN9.final = false :=
  let a := C19_stream_no_panic toyCodec toyZ (cfgAnim 1) { writeFailAt := some 100, writeOnce := true }
    [.op (.image [7]), .stream 64 [.write [7], .write [8], .write [9]] .finish] .finish
    (by decide) (by decide) (by decide) (by decide) (by decide)
  ⟨a.2.1, a.2.2⟩

/-- N12, for EVERY failure offset `n` (the decided fact covers 0..299), once or permanent, with the flushing toy
    compressor: a sink failure during a `flush` in the middle of the last row of a frame, then a narrower frame -/
example (n : Nat) : anyPanic (runN12At n).final = false ∧ (runN12At n).state.sink.iendAttempts = 1 :=
  let a := C19_stream_no_panic toyCodec toyZf (animatedCfg { width := 2, height := 1 } 2 0)
    { writeFailAt := some n, writeOnce := true } []
    (.intoStream 4 [.set (.dim 1 1), .write [1], .flush, .write [2], .flush, .write [3]] .finish)
    (by decide) (by decide) (by decide) (by decide) (by decide)
  let b := C19_stream_one_iend toyCodec toyZf (animatedCfg { width := 2, height := 1 } 2 0)
    { writeFailAt := some n, writeOnce := true } []
    (.intoStream 4 [.set (.dim 1 1), .write [1], .flush, .write [2], .flush, .write [3]] .finish)
    (by decide) (by decide) (by decide) (by decide) (by decide)
  ⟨a.2.2, b.2.1⟩

/-- `finish = Ok` ⇒ complete IEND, on a concrete run with a sink that failed once before (`runOnce40`) -/
example : ∃ pre, runOnce40.state.sink.log = pre ++ [⟨.chunk iendChunk, 12⟩] :=
  (C19_stream_failure_reported toyCodec toyZ cfgStill { writeFailAt := some 40, writeOnce := true } []
    (.intoStream 64 [.write [7]] .finish) (by decide) (by decide) (by decide) (by decide) (by decide) rfl).1
    (by rw [show (runProg toyCodec toyZ cfgStill { writeFailAt := some 40, writeOnce := true } []
      (.intoStream 64 [.write [7]] .finish)) = runOnce40 from rfl, runOnce40_facts.1]; rfl)

/-! ## Non-vacuity of the hypotheses -/

/-- a still picture needs no bound on the amount of data (first alternative of the counter hypothesis) -/
example (steps : List Step) (fin : PFinal) : cfgStill.fctl = none ∨ progCost steps fin < 2 ^ 32 := Or.inl rfl

/-- the hypotheses of the program theorems on a program that uses both APIs with every kind of step — an abandoned
    session, a session dropped in the middle of an image, out-of-range setter arguments are allowed too — under a sink
    that fails once in the middle and whose second `flush` fails -/
example : cfgAnim4.WellFormed ∧ cfgAnim4.Small ∧ (∀ s ∈ stepsMixed, s.inRange) ∧ finMixed.inRange ∧
    progCost stepsMixed finMixed = 9 ∧ finMixed.isFinish = true ∧ (∀ s ∈ stepsMixed, s.endsWithFinish) := by decide

example : (∀ s ∈ [Step.op (.image [1, 2, 3, 4]), .stream 0 [.write [5], .set (.dim 7 0), .set (.blend 9)] .drop,
      .stream 3 [] .finish], s.noIend) ∧
    progCost [Step.op (.image [1, 2, 3, 4]), .stream 0 [.write [5], .set (.dim 7 0), .set (.blend 9)] .drop,
      .stream 3 [] .finish] (.intoStream 5 [.write [1, 2, 3, 4, 5, 6, 7, 8]] .finish) = 13 := by decide

/-- all calls `Ok` on a sink that never fails: the second half of `C19_stream_failure_reported` is not vacuous -/
example : runMixed.header = .ok ∧ allOk runMixed.results ∧ (∀ r ∈ runMixed.final, r = .ok) ∧
    (∀ e ∈ runMixed.state.sink.log, e.complete = true) := by decide

/-- a state `C19_stream_reach` covers, in the middle of a session with a sink that fails once at byte 100: the `flush`
    reports `Err(io)` and leaves the chunk buffer full; the last row is then recorded as complete (`index = line_len`,
    `to_write = 0`) while its compression fails with `WriteZero` -/
example : midSession { writeFailAt := some 100, writeOnce := true } [.write [1, 2, 3], .flush, .write [4]] =
    some ([.ok, .err .io, .err .writeZero], 2, 2, 0) := by decide

/-- that state satisfies the invariant, so `C19_stream_call_reports` / `C19_stream_finish_reports` apply to it: the
    hypothesis `SWInv` is not vacuous, also in the middle of a failure (`midSession … = some _` above: `new` succeeded) -/
example (s0 : SW) (r0 : Res)
    (hnew : SW.new (writeHeader cfgAnim22 { writeFailAt := some 100, writeOnce := true }).1 true 0 = (.inl s0, r0)) :
    ∃ w', SWInv true (runSOps toyZf s0 [.write [1, 2, 3], .flush, .write [4]]).1 w' := by
  obtain ⟨hl, han, _⟩ := header_live cfgAnim22 { writeFailAt := some 100, writeOnce := true } (by decide) (by decide)
    (WellFormed.noIend (by decide)) (by decide) (s := (writeHeader cfgAnim22 { writeFailAt := some 100, writeOnce := true }).1)
    (by decide)
  obtain ⟨w', h, _⟩ := C19_stream_reach toyZf hl true 0 [.write [1, 2, 3], .flush, .write [4]]
    (Or.inr (by rw [han]; decide)) hnew
  exact ⟨w', h⟩

/-- the second half of `C19_stream_failure_reported` on a sink with a failure schedule that is not hit (write failure
    at byte 10000, third `flush` fails): all calls `Ok`, every entry complete -/
example : (runProg toyCodec toyZ cfgAnim4 { writeFailAt := some 10000, flushFailAt := some 2 } stepsMixed finMixed).final
    = [.ok, .ok, .ok] := by decide

end Png.C19
