import PngVerif.Proofs.Encoder
/-!
# C19 — Encoder misuse and sink failures fail cleanly; Ok from finish means complete

Model: `Model/Encoder.lean`.  A sink is a log of write attempts with a failure schedule
(`SinkBehaviour`: byte offset at which `write` fails, permanently or once; index of the failing
`flush`, permanently or once); all writes of the crate are `write_all`, so short writes are invisible.

Proved for EVERY sink behaviour, every configuration an `Encoder` can hold (`Cfg.Accepted`: whatever
`Encoder::with_info` lets through, or `Encoder::new` + `set_animated`) and every sequence of fewer than
2^32 operations of the whole-image API with ANY arguments — the full statement for the whole-image
API since the repairs f1da483 (with_info validates the frame control) and 92ed98c:

* `C19_no_panic_writer`: no call panics (`write_header`, every operation, `finish`);
* `C19_one_iend`: exactly one IEND emission is ever attempted — by `finish`, or by the drop; never
  a second one, also not after a failed `write_header` or a failed `finish`;
* `C19_finish_complete`: `Ok` from `finish` ⇒ the sink's log ends with a completely accepted IEND;
  on a sink that never fails the chunks are moreover a valid skeleton (`C19_finish_valid`);
* `C19_sink_failure_reported` / `C19_failure_persists`: a `write_chunk` that hits the failure offset
  returns the error, nothing of a failed chunk is completed later, and a permanently failing sink
  fails every later write;
* `C19_validation`: with `validate_sequence`, on a sink that never fails,
  `Writer::finish = Ok ⇔` images written = declared.

Still FALSE for the stream writer (theorems by `decide` on model runs, all reproduced on the real
crate): `C19_stream_finish_counterexample` (D14), `C19_stream_validation_counterexample` (D14),
`C19_stream_first_image_counterexample` (N8), and the reachable panics
`C19_no_panic_counterexample_small_buffer` (N1), `…_fctl_io` (N2), `…_set_fctl` (N9).
-/
namespace Png.C19
open Png Png.Val Png.Enc

/-- The property at full strength: no run of the model — any configuration an `Encoder` can hold, both
    APIs, any sink — contains a panic. -/
def C19_no_panic_statement : Prop :=
  ∀ (E : Codec) (Z : ZCodec) (c : Cfg) (beh : SinkBehaviour) (steps : List Step) (fin : PFinal),
    c.inRange → c.Accepted →
    (runProg E Z c beh steps fin).results.any anyPanic = false ∧ anyPanic (runProg E Z c beh steps fin).final = false

/-- **No panic, whole-image API (full statement for that API).**  Any accepted configuration, any sink,
    any arguments, fewer than 2^32 operations. -/
theorem C19_no_panic_writer (E : Codec) (c : Cfg) (beh : SinkBehaviour) (ops : List Op) (fin : Final)
    (hr : c.inRange) (hf : c.Accepted) (hn : c.NoIend) (hno : ∀ op ∈ ops, op.noIend)
    (hlen : ops.length < 2 ^ 32) :
    (runWriter E c beh ops fin).header.isPanic = false ∧
    anyPanic (runWriter E c beh ops fin).results = false ∧
    (∀ r, (runWriter E c beh ops fin).final = some r → r.isPanic = false) :=
  let h := writer_clean E c beh ops fin hr hf hn hno hlen
  ⟨h.1, h.2.1, h.2.2.1⟩

/-- **Exactly one IEND**, whatever fails: `finish` writes it, otherwise the drop does, and a drop
    after `finish` (or after a failed `finish`) writes nothing. -/
theorem C19_one_iend (E : Codec) (c : Cfg) (beh : SinkBehaviour) (ops : List Op) (fin : Final)
    (hr : c.inRange) (hf : c.Accepted) (hn : c.NoIend) (hno : ∀ op ∈ ops, op.noIend)
    (hlen : ops.length < 2 ^ 32) :
    (runWriter E c beh ops fin).state.iendWritten = true ∧
    (runWriter E c beh ops fin).state.sink.iendAttempts = 1 :=
  let h := writer_clean E c beh ops fin hr hf hn hno hlen
  ⟨h.2.2.2.1, h.2.2.2.2.1⟩

/-- dropping a writer whose IEND flag is set emits nothing (`Drop for Writer`) -/
theorem C19_drop_after_finish (s : WState) (h : s.iendWritten = true) : dropW s = s := dropW_of_iend h

/-- **`Ok` from `finish` means complete**: the last thing the sink accepted is a whole IEND chunk. -/
theorem C19_finish_complete (E : Codec) (c : Cfg) (beh : SinkBehaviour) (ops : List Op)
    (hr : c.inRange) (hf : c.Accepted) (hn : c.NoIend) (hno : ∀ op ∈ ops, op.noIend)
    (hlen : ops.length < 2 ^ 32) (hok : (runWriter E c beh ops .finish).final = some .ok) :
    ∃ pre, (runWriter E c beh ops .finish).state.sink.log = pre ++ [⟨.chunk iendChunk, 12⟩] :=
  (writer_clean E c beh ops .finish hr hf hn hno hlen).2.2.2.2.2 hok rfl

/-- on a sink that never fails, inside the domain of C12, `finish` is `Ok` and the chunks are valid -/
theorem C19_finish_valid (imgOk : ImgRule) (E : Codec) (c : Cfg) (hw : c.WellFormed)
    (hE : Codec.Ok imgOk E c.color c.depth) (ops : List Op) (hdom : SuppliesDeclaredImages E c ops) :
    (runWriter E c {} ops .finish).final = some .ok ∧
    ∃ rest, (runWriter E c {} ops .finish).state.sink.chunks = mkIhdr c :: rest ∧
      skeletonOfChunks imgOk c.width c.height c.color rest = .ok () :=
  let h := writer_skeleton_valid imgOk E c hw hE ops .finish hdom
  ⟨h.2.2.1, h.2.2.2⟩

/-- **Sequence validation** (sink that never fails; any setters at any time): `finish = Ok` exactly when
    the declared number of images was written. -/
theorem C19_validation (imgOk : ImgRule) (E : Codec) (c : Cfg) (hw : c.WellFormed)
    (hval : c.validate = true) (hE : Codec.Ok imgOk E c.color c.depth) (ops : List Op)
    (hh : (writeHeader c {}).2 = .ok) (hall : ∀ op ∈ ops, op.inRange) :
    (runWriter E c {} ops .finish).final = some .ok ↔
      (Enc.runOps E (writeHeader c {}).1 ops).1.imagesWritten = declared (writeHeader c {}).1 :=
  writer_validation imgOk E c hw hval hE ops hh hall

/-- with validation the writer refuses an image beyond the declared ones (`EndReached`) -/
theorem C19_validation_refuses {imgOk : ImgRule} {E : Codec} {s : WState} {seq fctls : Nat} {ph : Phase}
    (inv : Inv imgOk s seq fctls ph) (hval : s.validate = true) (hfull : declared s ≤ s.imagesWritten)
    (d : Bytes) : (writeImageData E s d).2 ≠ .ok :=
  inv.validate_refuses hval hfull d

/-- **A sink failure is reported by the call during which it happens**: `write_chunk` returns the
    error exactly when the chunk did not get through completely. -/
theorem C19_sink_failure_reported (k : Sink) (cs : List RChunk) :
    ∃ ext, (k.emitChunks cs).1.log = k.log ++ ext ∧
      ((k.emitChunks cs).2 = true → ∀ e ∈ ext, e.complete = true) :=
  let ⟨ext, h1, _, h3, _⟩ := Sink.emitChunks_log cs k
  ⟨ext, h1, h3⟩

/-- **Later calls do not un-fail**: after a permanent failure every write of a non-empty piece fails
    and the sink accepts nothing more. -/
theorem C19_failure_persists (k : Sink) (l : Nat) (h1 : k.beh.writeFailAt = some l)
    (h2 : k.beh.writeOnce = false) (h3 : k.count = l) (p : Piece) :
    (k.emit p).2 = false ∧ (k.emit p).1.count = l := by
  have hp : 0 < p.size := by cases p <;> simp [Piece.size] <;> omega
  have hn : ¬ p.size ≤ 0 := by omega
  simp [Sink.emit, Sink.budget, h1, h2, h3, hn]

/-- D14: `StreamWriter::finish` returns `Ok` although the sink, which fails after 40 bytes, never got
    the rest of the IDAT chunk nor the IEND (they are written by `Drop` impls that discard errors). -/
theorem C19_stream_finish_counterexample :
    runD14.final = [.ok, .ok, .ok] ∧ runD14.state.sink.chunks.map (·.ty) = [tyIHDR] ∧
    runD14.state.sink.count = 40 ∧ runD14.state.sink.fired = true := runD14_facts

/-- D14: validation on, 3 frames declared, 1 written: the stream writer's `finish` is `Ok` and the
    file is closed with IEND (`validate_sequence_done` is unreachable on that path). -/
theorem C19_stream_validation_counterexample :
    runD14v.final = [.ok, .ok, .ok] ∧
    runD14v.state.sink.chunks.map (·.ty) = [tyIHDR, tyACTL, tyFCTL, tyIDAT, tyIEND] := runD14v_facts

/-- N8: the declared image written through a borrowed stream writer is never counted:
    `Writer::finish` reports `MissingFrames` although the stream is complete. -/
theorem C19_stream_first_image_counterexample :
    runN8.results = [[.ok, .ok, .ok]] ∧ runN8.final = [.err .missingFrames] ∧
    runN8.state.sink.chunks.map (·.ty) = [tyIHDR, tyIDAT, tyIEND] := runN8_facts

/-- N1: animated + stream buffer shorter than 4 bytes: `self.buffer[0..4]` (encoder.rs:1288) -/
theorem C19_no_panic_counterexample_small_buffer :
    runN1.final.contains (.panic .chunkBufferIndex) = true ∧ ¬ C19_no_panic_statement := by
  refine ⟨runN1_facts, fun h => ?_⟩
  have := (h toyCodec toyZ (cfgAnim 2) {} [] (.intoStream 1 [.write [7]] .finish) (by decide) (by decide)).2
  rw [show runProg toyCodec toyZ (cfgAnim 2) {} [] (.intoStream 1 [.write [7]] .finish) = runN1 from rfl] at this
  revert this; decide

/-- N2: sink error while the next frame's fcTL is written, then a complete row: `unreachable!()` (:1690) -/
theorem C19_no_panic_counterexample_fctl_io :
    runN2.final.contains (.panic .unreachableWrapper) = true ∧ runN2.final.take 3 = [.ok, .ok, .err .io] := runN2_facts

/-- N9: `panic!("This function must be called on an animated PNG")` (:1254) -/
theorem C19_no_panic_counterexample_set_fctl :
    runN9.results = [[.err .io], [.ok, .ok, .ok, .panic .setFctlNotAnimated]] := runN9_facts

/-- the former panics of N3 / N4 / N6 are refusals or plain successes now -/
theorem C19_repaired_misuse :
    withInfo cfgOff = .error .outOfBounds ∧ withInfo cfgW0 = .error .zeroWidth ∧
    runN6.final = [.err .noPalette] ∧ runN4.final = [.ok, .ok] :=
  ⟨withInfo_facts.2.1, withInfo_facts.2.2.1, runN6_facts.1, runN4_facts.1⟩

/-! non-vacuity -/
set_option maxRecDepth 100000 in
example : (cfgAnim 2).inRange ∧ (cfgAnim 2).Accepted ∧
    (∀ op ∈ [Op.setDim 7 0, .image [1, 2, 3], .resetDim, .image [7], .chunk 1886541428 []], op.noIend) := by decide
example : (cfgAnim 2).NoIend := by intro r h; simp [cfgAnim, animatedCfg] at h
set_option maxRecDepth 100000 in
example : (runWriter toyCodec (cfgAnim 2) { writeFailAt := some 70, writeOnce := true }
    [.image [7], .image [7], .image [9]] .finish).final = some .ok := by decide
set_option maxRecDepth 100000 in
example : ∀ op ∈ [Op.setDim 1 1, .image [7], .image [7, 7], .image [9], .image [9]], op.inRange := by decide

end Png.C19
