import PngVerif.Proofs.Encoder
/-!
# C19 — Encoder misuse and sink failures fail cleanly; Ok from finish means complete

Model: `Model/Encoder.lean`.  A sink is a log of write attempts with a failure schedule
(`SinkBehaviour`: byte offset at which `write` fails, permanently or once; index of the failing
`flush`, permanently or once); all writes of the crate are `write_all`, so short writes are invisible.

Proved for EVERY sink behaviour, every configuration an `Encoder` can hold (`Cfg.Accepted`: whatever
`Encoder::with_info` lets through, or `Encoder::new` + `set_animated`) and every sequence of fewer than
2^32 operations of the whole-image API with ANY arguments — the full statement for the whole-image
API since the repairs f1da483 (with_info validates the frame control) and 92ed98c:

* `C19_no_panic_writer`: no call panics (`write_header`, every operation, `finish`);
* `C19_one_iend`: exactly one IEND emission is ever attempted — by `finish`, or by the drop; never
  a second one, also not after a failed `write_header` or a failed `finish`;
* `C19_finish_complete`: `Ok` from `finish` ⇒ the sink's log ends with a completely accepted IEND;
  on a sink that never fails the chunks are moreover a valid skeleton (`C19_finish_valid`);
* `C19_sink_failure_reported` / `C19_failure_persists`: a `write_chunk` that hits the failure offset
  returns the error, nothing of a failed chunk is completed later, and a permanently failing sink
  fails every later write;
* `C19_validation`: with `validate_sequence`, on a sink that never fails,
  `Writer::finish = Ok ⇔` images written = declared.

For the stream writer (repaired by d0d021f … 9136341: `finish` reports the sequence check, the IEND
and the sink's flush; images are counted; no reachable `unreachable!()`/index panics are known any more):

* `C19_stream_clean_partial`: programs over both APIs on a sink that never fails, inside the domain of
  `C12_stream_partial` without the count requirement (arguments in range, every session complete): no
  call panics; the `Writer` ends closed, exactly one IEND was attempted, and it is the last, complete
  entry of the sink's log;
* `C19_stream_validation_partial`: with `validate_sequence`, `Ok` from the final `finish` — `Writer::finish`
  or the owned `StreamWriter::finish` — means that exactly the declared images were written and the chunks
  are a valid skeleton; conversely `finish` is `Ok` whenever they were;
* `C19_stream_sink_failures`: the former D14/N2/N9 runs with failing sinks, decided on the model
  (and reproduced on the crate by the harness): the error is reported by the call that hits it and by
  `finish`, nothing panics, one IEND attempt.

These two stay `_partial` (clean sink, complete sessions); they additionally give the valid skeleton.  The every-sink
clauses for the stream writer — no panic, one IEND attempt which is the last log entry, the failing call reports the
error, `Ok` from `finish` means the log ends with a complete IEND — are proved in `Props/C19Stream.lean`
(`C19_stream_no_panic`, `C19_stream_one_iend`, `C19_stream_failure_reported`, per call `C19_stream_call_reports`) for EVERY
`SinkBehaviour`, with no compressor contract and without asking that sessions are complete.  The invariant `SWInv`
(`Proofs/StreamSink*.lean`) follows flate2's retry loop through every partial state — output pending in `zio::Writer`, a chunk
buffer left full by a failed `flush_inner`, a row recorded as complete whose compression failed (`index = line_len`,
`to_write = 0`), `Wrapper::Unrecoverable` — and the `u32` counter `animation_written` is bounded through `progCost`
(1 per whole-image op, 1 per session, 1 per byte written through a stream writer; `C19_stream_room_needed`: necessary).
Still FALSE (N10, open): `C19_stream_finish_abandoned_counterexample` — with an abandoned stream-writer
session every call incl. `finish` returns `Ok` under `validate_sequence` and the file is invalid.  By design
of `Drop` (remainder of N11): a session dropped in the MIDDLE of an image cannot report a sink error
(`C19_stream_drop_mid_image_example`); a complete session writes nothing in its drop.
-/
namespace Png.C19
open Png Png.Val Png.Enc

/-- **No panic, whole-image API (full statement for that API).**  Any accepted configuration, any sink,
    any arguments, fewer than 2^32 operations. -/
theorem C19_no_panic_writer (E : Codec) (c : Cfg) (beh : SinkBehaviour) (ops : List Op) (fin : Final)
    (hr : c.inRange) (hf : c.Accepted) (hn : c.NoIend) (hno : ∀ op ∈ ops, op.noIend)
    (hlen : ops.length < 2 ^ 32) :
    (runWriter E c beh ops fin).header.isPanic = false ∧
    anyPanic (runWriter E c beh ops fin).results = false ∧
    (∀ r, (runWriter E c beh ops fin).final = some r → r.isPanic = false) :=
  let h := writer_clean E c beh ops fin hr hf hn hno hlen
  ⟨h.1, h.2.1, h.2.2.1⟩

/-- **Exactly one IEND**, whatever fails: `finish` writes it, otherwise the drop does, and a drop
    after `finish` (or after a failed `finish`) writes nothing. -/
theorem C19_one_iend (E : Codec) (c : Cfg) (beh : SinkBehaviour) (ops : List Op) (fin : Final)
    (hr : c.inRange) (hf : c.Accepted) (hn : c.NoIend) (hno : ∀ op ∈ ops, op.noIend)
    (hlen : ops.length < 2 ^ 32) :
    (runWriter E c beh ops fin).state.iendWritten = true ∧
    (runWriter E c beh ops fin).state.sink.iendAttempts = 1 :=
  let h := writer_clean E c beh ops fin hr hf hn hno hlen
  ⟨h.2.2.2.1, h.2.2.2.2.1⟩

/-- dropping a writer whose IEND flag is set emits nothing (`Drop for Writer`) -/
theorem C19_drop_after_finish (s : WState) (h : s.iendWritten = true) : dropW s = s := dropW_of_iend h

/-- **`Ok` from `finish` means complete**: the last thing the sink accepted is a whole IEND chunk. -/
theorem C19_finish_complete (E : Codec) (c : Cfg) (beh : SinkBehaviour) (ops : List Op)
    (hr : c.inRange) (hf : c.Accepted) (hn : c.NoIend) (hno : ∀ op ∈ ops, op.noIend)
    (hlen : ops.length < 2 ^ 32) (hok : (runWriter E c beh ops .finish).final = some .ok) :
    ∃ pre, (runWriter E c beh ops .finish).state.sink.log = pre ++ [⟨.chunk iendChunk, 12⟩] :=
  (writer_clean E c beh ops .finish hr hf hn hno hlen).2.2.2.2.2 hok rfl

/-- on a sink that never fails, inside the domain of C12, `finish` is `Ok` and the chunks are valid -/
theorem C19_finish_valid (imgOk : ImgRule) (E : Codec) (c : Cfg) (hw : c.WellFormed)
    (hE : Codec.Ok imgOk E c.color c.depth) (ops : List Op) (hdom : SuppliesDeclaredImages E c ops) :
    (runWriter E c {} ops .finish).final = some .ok ∧
    ∃ rest, (runWriter E c {} ops .finish).state.sink.chunks = mkIhdr c :: rest ∧
      skeletonOfChunks imgOk c.width c.height c.color rest = .ok () :=
  let h := writer_skeleton_valid imgOk E c hw hE ops .finish hdom
  ⟨h.2.2.1, h.2.2.2⟩

/-- **Sequence validation** (sink that never fails; any setters at any time): `finish = Ok` exactly when
    the declared number of images was written. -/
theorem C19_validation (imgOk : ImgRule) (E : Codec) (c : Cfg) (hw : c.WellFormed)
    (hval : c.validate = true) (hE : Codec.Ok imgOk E c.color c.depth) (ops : List Op)
    (hh : (writeHeader c {}).2 = .ok) (hall : ∀ op ∈ ops, op.inRange) :
    (runWriter E c {} ops .finish).final = some .ok ↔
      (Enc.runOps E (writeHeader c {}).1 ops).1.imagesWritten = declared (writeHeader c {}).1 :=
  writer_validation imgOk E c hw hval hE ops hh hall

/-- with validation the writer refuses an image beyond the declared ones (`EndReached`) -/
theorem C19_validation_refuses {imgOk : ImgRule} {E : Codec} {s : WState} {seq fctls : Nat} {ph : Phase}
    (inv : Inv imgOk s seq fctls ph) (hval : s.validate = true) (hfull : declared s ≤ s.imagesWritten)
    (d : Bytes) : (writeImageData E s d).2 ≠ .ok :=
  inv.validate_refuses hval hfull d

/-- **A sink failure is reported by the call during which it happens**: `write_chunk` returns the
    error exactly when the chunk did not get through completely. -/
theorem C19_sink_failure_reported (k : Sink) (cs : List RChunk) :
    ∃ ext, (k.emitChunks cs).1.log = k.log ++ ext ∧
      ((k.emitChunks cs).2 = true → ∀ e ∈ ext, e.complete = true) :=
  let ⟨ext, h1, _, h3, _⟩ := Sink.emitChunks_log cs k
  ⟨ext, h1, h3⟩

/-- **Later calls do not un-fail**: after a permanent failure every write of a non-empty piece fails
    and the sink accepts nothing more. -/
theorem C19_failure_persists (k : Sink) (l : Nat) (h1 : k.beh.writeFailAt = some l)
    (h2 : k.beh.writeOnce = false) (h3 : k.count = l) (p : Piece) :
    (k.emit p).2 = false ∧ (k.emit p).1.count = l := by
  have hp : 0 < p.size := by cases p <;> simp [Piece.size] <;> omega
  have hn : ¬ p.size ≤ 0 := by omega
  simp [Sink.emit, Sink.budget, h1, h2, h3, hn]

/-- **C19 for programs that use `StreamWriter` (partial: sink that never fails, every session complete).**
    No call panics — `write_header`, every operation of either writer, every `finish`/drop; at the end the
    `Writer` is closed, exactly one IEND emission was attempted, and the log ends with the complete IEND. -/
theorem C19_stream_clean_partial (imgOk : ImgRule) (E : Codec) (Z : ZCodec) (c : Cfg) (hw : c.WellFormed) (hsm : c.Small)
    (hE : Codec.Ok imgOk E c.color c.depth) (hZ : ZCodec.Ok imgOk Z c.color c.depth)
    (steps : List Step) (fin : PFinal) (hdom : StreamDomain E Z c steps fin) :
    (runProg E Z c {} steps fin).header = .ok ∧
    (runProg E Z c {} steps fin).results.any anyPanic = false ∧
    anyPanic (runProg E Z c {} steps fin).final = false ∧
    (runProg E Z c {} steps fin).state.iendWritten = true ∧
    (runProg E Z c {} steps fin).state.sink.iendAttempts = 1 ∧
    (∃ pre, (runProg E Z c {} steps fin).state.sink.log = pre ++ [⟨.chunk iendChunk, 12⟩]) :=
  stream_clean imgOk E Z c hw hsm hE hZ steps fin hdom

/-- **`Ok` from `finish` means complete, through the stream writer** (partial: sink that never fails, every
    session complete; `validate_sequence` on).  `fin.isFinish`: the program ends with `Writer::finish` or with
    `finish` of an owned stream writer.  `Ok` ⇒ exactly the declared images were written (by either API) and
    the sink's chunks are a valid skeleton.  Conversely, if they were written — and `into_stream_writer` at the
    end was not refused (`newOk`; it is refused with `EndReached` when everything is written already) —
    `finish` returns `Ok`. -/
theorem C19_stream_validation_partial (imgOk : ImgRule) (E : Codec) (Z : ZCodec) (c : Cfg) (hw : c.WellFormed)
    (hsm : c.Small) (hval : c.validate = true)
    (hE : Codec.Ok imgOk E c.color c.depth) (hZ : ZCodec.Ok imgOk Z c.color c.depth)
    (steps : List Step) (fin : PFinal) (hdom : StreamDomain E Z c steps fin) (hfin : fin.isFinish = true) :
    ((runProg E Z c {} steps fin).final.getLast? = some .ok →
      (runProg E Z c {} steps fin).declaredWritten ∧
      ∃ rest, (runProg E Z c {} steps fin).state.sink.chunks = mkIhdr c :: rest ∧
        skeletonOfChunks imgOk c.width c.height c.color rest = .ok ()) ∧
    ((runProg E Z c {} steps fin).declaredWritten →
      fin.newOk (Enc.runSteps E Z (writeHeader c {}).1 steps).1 →
      (runProg E Z c {} steps fin).final.getLast? = some .ok) :=
  stream_validation imgOk E Z c hw hsm hval hE hZ steps fin hdom hfin

/-- one complete session, as a statement of its own: whatever the operations, a borrowed `Writer` comes
    back in a state from which everything above continues (`JW`), an owned one is closed by `finish` (IEND
    and sink flush, after the sequence check) or by its drop; `finish` is `Ok` exactly when `new` succeeded
    and the sequence check passes -/
theorem C19_stream_session {imgOk : ImgRule} {C D W H : Nat} {V : Bool} {Z : ZCodec} (hZ : ZCodec.Ok imgOk Z C D)
    {w : WState} (hj : JW imgOk C D W H V w) (owned : Bool) (size : Nat) (ops : List SOp) (fin : Final)
    (hr : ∀ o ∈ ops, o.inRange) (hc : SessionComplete Z w owned size ops) :
    anyPanic (streamSession Z w owned size ops fin).2 = false ∧
    ∃ w', JW imgOk C D W H V w' ∧
      (owned = false → (streamSession Z w owned size ops fin).1 = w') ∧
      (owned = true → (streamSession Z w owned size ops fin).1 = dropW w' ∨
        ((streamSession Z w owned size ops fin).1 = flushedW (dropW w') ∧ fin = .finish ∧ validateSequenceDone w' = none)) ∧
      ∃ r, (streamSession Z w owned size ops fin).2.getLast? = some r ∧
        (fin = .finish → (r = .ok ↔ (SW.new w owned size).2 = .ok ∧ validateSequenceDone w' = none)) :=
  session_spec hZ hj owned size ops fin hr hc

/-- failing sinks on the stream path, decided on the model (the former D14, D14-validation, N8, N1, N2, N9
    witnesses, now repaired): the sink accepts 40 bytes — the `write` that ends the image and `finish` report
    the error, one IEND attempt; 1 of 3 declared frames with validation — `finish` reports `MissingFrames`;
    the stream-written image is counted by `Writer::finish`; a 1-byte chunk buffer request works; a sink error
    while the second fcTL is written is reported, the next calls do not panic; `write_image_data` failing
    between fcTL and IDAT, three stream images later: no panic; the former N12 (repaired by c724280): a sink
    failure during a `flush` in the middle of the last row of a frame, then a narrower frame — the errors are
    reported, the next `write` starts at the beginning of its row, for every failure offset 0..299 -/
theorem C19_stream_sink_failures :
    (runD14.final = [.ok, .err .io, .err .io] ∧ runD14.state.sink.iendAttempts = 1) ∧
    (runD14v.final = [.ok, .ok, .err .missingFrames] ∧ runD14v.state.sink.iendAttempts = 1) ∧
    (runN8.results = [[.ok, .ok, .ok]] ∧ runN8.final = [.ok]) ∧
    runN1.final = [.ok, .ok, .ok] ∧
    (anyPanic runN2.final = false ∧ runN2.final.take 3 = [.ok, .ok, .err .io]) ∧
    (runN9.results.any anyPanic = false ∧ runN9.final = [.ok]) ∧
    (runN12.final = [.ok, .ok, .ok, .err .io, .err .writeZero, .err .writtenTooMuch, .ok, .ok] ∧
      runN12.state.sink.iendAttempts = 1 ∧
      ((List.range 300).all fun n => !anyPanic (runN12At n).final) = true) :=
  ⟨⟨runD14_facts.1, runD14_facts.2.2⟩, runD14v_facts, ⟨runN8_facts.1, runN8_facts.2.1⟩, runN1_facts, runN2_facts, runN9_facts,
    runN12_facts⟩

/-- `C19_stream_validation_partial`'s first half WITHOUT the requirement that every session is complete. -/
def C19_stream_finish_abandoned_statement : Prop :=
  ∀ (c : Cfg) (steps : List Step) (fin : PFinal), c.WellFormed → c.Small → c.validate = true →
    (∀ s ∈ steps, s.inRange) → fin.inRange → fin.isFinish = true →
    (runProg toyCodec toyZ c {} steps fin).final.getLast? = some .ok →
    runSkeletonOk c (runProg toyCodec toyZ c {} steps fin).state = true

/-- N10 (open): with `validate_sequence`, two frames declared: frame 1, a stream writer opened and dropped,
    frame 2, `finish` — every call returns `Ok`, two images are counted, and the file has three fcTL chunks. -/
theorem C19_stream_finish_abandoned_counterexample :
    ¬ C19_stream_finish_abandoned_statement ∧
    runN10v.results = [[.ok], [.ok, .ok], [.ok]] ∧ runN10v.final = [.ok] ∧
    runSkeletonOk (cfgAnim 2) runN10v.state = false :=
  ⟨stream_abandoned_finish_counterexample, runN10v_facts.1, runN10v_facts.2.1, runN10v_facts.2.2.2⟩

/-- remainder of N11 (by design of `Drop`): a session dropped in the middle of an image on a sink that fails
    once during that drop: every call returns `Ok`, the IDAT chunk is missing.  (A complete session has
    nothing left to write in its drop: `drop_between`.) -/
theorem C19_stream_drop_mid_image_example :
    runN11.results = [[.ok, .ok, .ok]] ∧ runN11.final = [.ok] ∧
    runN11.state.sink.chunks.map (·.ty) = [tyIHDR, tyIEND] := ⟨runN11_facts.1, runN11_facts.2.1, runN11_facts.2.2.1⟩

/-- dropping a stream writer that stands between two images writes nothing (but the IEND of an owned `Writer`) -/
theorem C19_stream_drop_complete_silent {Z : ZCodec} {s : SW} {w : WState} {cap : Nat} {curr : Ty}
    (hwr : s.wr = .chunk ⟨w, cap, [], curr⟩) (hidx : s.index = 0) (fb : WState) :
    (s.drop Z).2 = .ok ∧ (s.drop Z).1.writerState fb = (if s.owned then dropW w else w) :=
  drop_between hwr hidx fb

/-- the former panics of N3 / N4 / N6 are refusals or plain successes now -/
theorem C19_repaired_misuse :
    withInfo cfgOff = .error .outOfBounds ∧ withInfo cfgW0 = .error .zeroWidth ∧
    runN6.final = [.err .noPalette] ∧ runN4.final = [.ok, .ok] :=
  ⟨withInfo_facts.2.1, withInfo_facts.2.2.1, runN6_facts.1, runN4_facts.1⟩

/-! non-vacuity -/
set_option maxRecDepth 100000 in
example : (cfgAnim 2).inRange ∧ (cfgAnim 2).Accepted ∧
    (∀ op ∈ [Op.setDim 7 0, .image [1, 2, 3], .resetDim, .image [7], .chunk 1886541428 []], op.noIend) := by decide
example : (cfgAnim 2).NoIend := by intro r h; simp [cfgAnim, animatedCfg] at h
set_option maxRecDepth 100000 in
example : (runWriter toyCodec (cfgAnim 2) { writeFailAt := some 70, writeOnce := true }
    [.image [7], .image [7], .image [9]] .finish).final = some .ok := by decide
set_option maxRecDepth 100000 in
example : ∀ op ∈ [Op.setDim 1 1, .image [7], .image [7, 7], .image [9], .image [9]], op.inRange := by decide

/-- the domain of the stream theorems on a program that uses both APIs, an animation with a sub-frame, buffer
    size requests 0 and 3, an owned stream writer closed by `finish` -/
example : cfgAnim4.WellFormed ∧ cfgAnim4.Small ∧ StreamDomain toyCodec toyZ cfgAnim4 stepsMixed finMixed ∧
    finMixed.isFinish = true ∧ runMixed.final = [.ok, .ok, .ok] :=
  ⟨runMixed_facts.1, runMixed_facts.2.1, runMixed_facts.2.2.1, rfl, runMixed_facts.2.2.2.2.1⟩
example : StreamDomain toyCodec toyZ { width := 2, height := 2, validate := true }
      [.stream 1 [.write [1, 2, 3], .flush, .write [4]] .drop] .finish ∧ runStill.final = [.ok] :=
  ⟨runStill_facts.1, runStill_facts.2.2.1⟩

end Png.C19
