import PngVerif.Props.C11
import PngVerif.Proofs.ChecksumRun3
import PngVerif.Proofs.InflateAdler
/-!
# C11 — checksum policy at the level of whole streams

Property theorems only (lemmas: `Proofs/ChecksumRun.lean`, `ChecksumRun2.lean`, `ChecksumRun3.lean`, `InflateLocal.lean`,
`InflateAdler.lean`).
They close the two gaps stated for `Props/C11.lean`:

**CRC.**  A stream is `streamWith crcs cs = signature ++ records`: the chunk records `cs : List (ChunkType × Bytes)` (type, body;
length field = length of the body), the `i`-th with the four stored CRC bytes `crcs[i]` — whatever they are.  NO assumption about
the kinds or the order of the chunks: invalid streams and every error are covered.  `FieldsOk cs`: types and lengths fit their
four-byte fields (`< 2^32`).  For an ARBITRARY `cfg : Cfg` (any CRC function, any inflater) and arbitrary options.

* `C11_ignore_crc_stream`: with `ignore_crc`, two streams with the same chunk records and ANY two sets of stored CRC bytes give
  the same final decoder (all of it: `info`, image data `out`, flags, limits, state), the same error, and the same events up to
  the CRC value that `ChunkComplete` carries — for the run that is handed the whole stream;
  `C11_ignore_crc_stream_deliveries`: the same for any two deliveries (partitions into pieces) of the two streams, in the sense
  of C04 (`cfg.InflateOk`; events other than per-call `ImageData`; decoder after an error up to `Dec.afterError`).
* `C11_crc_checked_record`, `C11_crc_checked_stream`: CRC checking enabled, default `skip_ancillary_crc_failures` (or not): a
  record of a CRITICAL chunk, of acTL / fcTL / fdAT (or of any chunk when the skip option is off) whose stored CRC differs from
  `cfg.crc (type bytes ++ body)` — data chunks IDAT / fdAT INCLUDED, which `C11.crc_bad_chunk_fails_run` had to exclude because
  it states the mismatch through the chunk buffer `raw` that data chunks bypass —: the run fails there; nothing behind the
  record is looked at; no `ImageEnd` is reported by it or after it; the decoder is poisoned; the error is `CrcMismatch` unless
  an earlier chunk failed already or the chunk is refused whatever its CRC.  `C11_crc_checked_stream_deliveries`: any delivery.

**Adler-32.**  `adler_is_rfc1950`: the model's `adler` is Adler-32 of RFC 1950.  `adler_trailer_bytes`: the zlib wrapper of the
model's prefix-mode inflater (`Inf.zlibPrefix`, the one `Driver.realCfg` uses) on a stream whose deflate part is valid, with ANY
four bytes in the trailer position: check off — same output, same completion status; check on — accepted iff the four bytes are
the Adler-32 of the output, corrupt otherwise.  (Behind it: `Proofs/InflateLocal.lean`, the decoder never reads beyond the end
of the final block — for stored, fixed and dynamic blocks.)  `adler_check_equation`, `adler_on_accepts_iff`,
`adler_off_ignores_trailer_value`: the check-on answer as a function of the check-off answer.  `adler_policy_realCfg`,
`adler_trailer_bytes_realCfg`, `adler_off_changes_nothing_else`, `adler_on_mismatch_is_format_error`: what that means for the
framing model instantiated with `Driver.realCfg (!opts.ignoreAdler)`: runs with and without the check are identical until the
checked one reports `Format(CorruptFlateStream)`.
-/
namespace Png.C11
open Png Png.Framing

/-- `C11.eraseCrc` is the erasure used by the run-level lemmas -/
theorem eraseCrc_eq : eraseCrc = Ev.eraseCrc := by
  funext ev; cases ev <;> rfl

/-! ## `ignore_crc`: the stored CRC bytes of a whole stream are never looked at -/

/-- **`ignore_crc` lifted to whole streams.**  Same chunk records, any two sets of stored CRC bytes: the runs (from a new
    decoder, handed the whole stream) end with the SAME DECODER — hence the same `info` and the same image data —, the same
    error if any, and the same events up to the CRC value carried by `ChunkComplete`.  No well-formedness of the chunk
    sequence is assumed. -/
theorem C11_ignore_crc_stream (cfg : Cfg) (opts : Options) (hig : opts.ignoreCrc = true) (crcsA crcsB : List Crc4)
    (cs : List (ChunkType × Bytes)) (hcs : FieldsOk cs) :
    (runF cfg (Dec.new opts) (streamWith crcsA cs)).1 = (runF cfg (Dec.new opts) (streamWith crcsB cs)).1 ∧
    (runF cfg (Dec.new opts) (streamWith crcsA cs)).2.2 = (runF cfg (Dec.new opts) (streamWith crcsB cs)).2.2 ∧
    (runF cfg (Dec.new opts) (streamWith crcsA cs)).2.1.map eraseCrc =
      (runF cfg (Dec.new opts) (streamWith crcsB cs)).2.1.map eraseCrc := by
  obtain ⟨h1, h2, h3⟩ := ignore_crc_stream cfg opts hig crcsA crcsB cs hcs
  rw [eraseCrc_eq]
  exact ⟨h1, h3, h2⟩

/-- the same in terms of the model's caller loop `feed` (any sufficient fuel) and of `run` -/
theorem C11_ignore_crc_stream_feed (cfg : Cfg) (opts : Options) (hig : opts.ignoreCrc = true) (crcsA crcsB : List Crc4)
    (cs : List (ChunkType × Bytes)) (hcs : FieldsOk cs) (fA fB : Nat)
    (hA : 5 * (streamWith crcsA cs).length + 5 ≤ fA) (hB : 5 * (streamWith crcsB cs).length + 5 ≤ fB) :
    (feed cfg fA (Dec.new opts) (streamWith crcsA cs) []).1 = (feed cfg fB (Dec.new opts) (streamWith crcsB cs) []).1 ∧
    (feed cfg fA (Dec.new opts) (streamWith crcsA cs) []).2.2 = (feed cfg fB (Dec.new opts) (streamWith crcsB cs) []).2.2 ∧
    (feed cfg fA (Dec.new opts) (streamWith crcsA cs) []).2.1.map eraseCrc =
      (feed cfg fB (Dec.new opts) (streamWith crcsB cs) []).2.1.map eraseCrc ∧
    run cfg fA (Dec.new opts) (streamWith crcsA cs) = feed cfg fA (Dec.new opts) (streamWith crcsA cs) [] := by
  rw [feed_eq_runF cfg _ _ fA hA, feed_eq_runF cfg _ _ fB hB, run_eq_runF' cfg _ hA]
  obtain ⟨h1, h2, h3⟩ := C11_ignore_crc_stream cfg opts hig crcsA crcsB cs hcs
  exact ⟨h1, h2, h3, rfl⟩

/-- **`ignore_crc`, every delivery.**  The two streams cut into pieces in any two ways and fed piece by piece (`feedPieces`,
    the model's caller loop): the same error, the same events (other than the per-call `ImageData` notifications) up to the
    CRC values carried by `ChunkComplete`, the same final decoder — entirely when there is no error (so the same `info` and
    the same image data), up to the progress inside the failing data chunk (`Dec.afterError`, C04) after an error; `info`
    always. -/
theorem C11_ignore_crc_stream_deliveries (cfg : Cfg) (hI : cfg.InflateOk) (opts : Options) (hig : opts.ignoreCrc = true)
    (crcsA crcsB : List Crc4) (cs : List (ChunkType × Bytes)) (hcs : FieldsOk cs) (ps qs : List Bytes)
    (hp : ps.flatten = streamWith crcsA cs) (hq : qs.flatten = streamWith crcsB cs) :
    (feedPieces cfg (Dec.new opts) ps).2.2 = (feedPieces cfg (Dec.new opts) qs).2.2 ∧
    ((feedPieces cfg (Dec.new opts) ps).2.1.filter Ev.keep).map eraseCrc =
      ((feedPieces cfg (Dec.new opts) qs).2.1.filter Ev.keep).map eraseCrc ∧
    ((feedPieces cfg (Dec.new opts) ps).2.2 = none →
      (feedPieces cfg (Dec.new opts) ps).1 = (feedPieces cfg (Dec.new opts) qs).1) ∧
    (feedPieces cfg (Dec.new opts) ps).1.afterError = (feedPieces cfg (Dec.new opts) qs).1.afterError ∧
    (feedPieces cfg (Dec.new opts) ps).1.info = (feedPieces cfg (Dec.new opts) qs).1.info := by
  rw [eraseCrc_eq]
  exact ignore_crc_stream_deliveries cfg hI opts hig crcsA crcsB cs hcs ps qs hp hq

/-! ## CRC checking enabled: a wrong stored CRC in a critical chunk (or acTL / fcTL / fdAT) -/

/-- **One record with a wrong stored CRC** (all chunk kinds; the full-strength form of `crc_bad_chunk_fails_run`, whose
    exclusion of IDAT / fdAT is gone).  CRC checking enabled; a chunk `(t, body)` whose mismatch is fatal (`CrcFatal`:
    critical, or acTL / fcTL / fdAT, or `skip_ancillary_crc_failures` off); stored CRC bytes `c` with
    `c.val ≠ cfg.crc (type bytes ++ body)`.  From ANY decoder at a chunk boundary (whatever came before):
    the run over the record followed by ANYTHING (`Y`) is the run over the record alone — nothing behind it is looked at —,
    it ends with an error, the decoder is poisoned, no `ImageEnd` is reported, and the error is `CrcMismatch` as soon as the
    record passes for some stored CRC `c'` (i.e. unless the chunk is refused for its content or position). -/
theorem C11_crc_checked_record (cfg : Cfg) (d : Dec) (hd : ChunkBoundary d) (hig : d.opts.ignoreCrc = false) (t : ChunkType)
    (body : Bytes) (ht : t < 2 ^ 32) (hb : body.length < 2 ^ 32) (hf : CrcFatal d.opts t) (c : Crc4)
    (hbad : c.val ≠ cfg.crc (typeBytes t ++ body)) (Y : Bytes) :
    runF cfg d (record t body c ++ Y) = runF cfg d (record t body c) ∧
    (runF cfg d (record t body c)).2.2 ≠ none ∧
    .imageEnd ∉ (runF cfg d (record t body c)).2.1 ∧
    (runF cfg d (record t body c)).1.state = none ∧
    (∀ c' : Crc4, (runF cfg d (record t body c')).2.2 = none →
      (runF cfg d (record t body c)).2.2 = some (.format "CrcMismatch")) :=
  bad_crc_record cfg ht hb d hd hig hf c hbad Y

/-- **A wrong stored CRC anywhere in a stream does not decode past that chunk.**  CRC checking enabled.  The stream:
    chunks `cs₁` (any kinds, any stored CRCs `crcs₁`), then the record of `(t, body)` — critical, or acTL / fcTL / fdAT under
    the default `skip_ancillary_crc_failures`, or any kind with the option off — with stored CRC bytes `c`,
    `c.val ≠ cfg.crc (type bytes ++ body)`, then anything (`cs₂`, `crcs₂`).  With `P` = the run over the chunks before,
    `R` = the run over the whole stream:
    1. `R` is the run over the stream cut off right after the bad record;
    2. `R` ends with an error and the decoder is poisoned;
    3. if an earlier chunk failed (`P` has an error), `R = P`;
    4. the events of `R` are those of `P` followed by events with no `ImageEnd` among them;
    5. if the stream cut off after the record decodes without error for SOME stored CRC `c'` of that record (in particular:
       if it does with the right CRC), the error of `R` is `Format(CrcMismatch)`. -/
theorem C11_crc_checked_stream (cfg : Cfg) (opts : Options) (hig : opts.ignoreCrc = false) (crcs₁ crcs₂ : List Crc4)
    (c : Crc4) (cs₁ cs₂ : List (ChunkType × Bytes)) (t : ChunkType) (body : Bytes) (hlen : crcs₁.length = cs₁.length)
    (hcs₁ : FieldsOk cs₁) (ht : t < 2 ^ 32) (hb : body.length < 2 ^ 32) (hf : CrcFatal opts t)
    (hbad : c.val ≠ cfg.crc (typeBytes t ++ body)) :
    runF cfg (Dec.new opts) (streamWith (crcs₁ ++ c :: crcs₂) (cs₁ ++ (t, body) :: cs₂)) =
      runF cfg (Dec.new opts) (streamWith (crcs₁ ++ [c]) (cs₁ ++ [(t, body)])) ∧
    (runF cfg (Dec.new opts) (streamWith (crcs₁ ++ c :: crcs₂) (cs₁ ++ (t, body) :: cs₂))).2.2 ≠ none ∧
    (runF cfg (Dec.new opts) (streamWith (crcs₁ ++ c :: crcs₂) (cs₁ ++ (t, body) :: cs₂))).1.state = none ∧
    (∀ e, (runF cfg (Dec.new opts) (streamWith crcs₁ cs₁)).2.2 = some e →
      runF cfg (Dec.new opts) (streamWith (crcs₁ ++ c :: crcs₂) (cs₁ ++ (t, body) :: cs₂)) =
        runF cfg (Dec.new opts) (streamWith crcs₁ cs₁)) ∧
    (∃ evs, (runF cfg (Dec.new opts) (streamWith (crcs₁ ++ c :: crcs₂) (cs₁ ++ (t, body) :: cs₂))).2.1 =
        (runF cfg (Dec.new opts) (streamWith crcs₁ cs₁)).2.1 ++ evs ∧ .imageEnd ∉ evs) ∧
    (∀ c' : Crc4, (runF cfg (Dec.new opts) (streamWith (crcs₁ ++ [c']) (cs₁ ++ [(t, body)]))).2.2 = none →
      (runF cfg (Dec.new opts) (streamWith (crcs₁ ++ c :: crcs₂) (cs₁ ++ (t, body) :: cs₂))).2.2 =
        some (.format "CrcMismatch")) :=
  bad_crc_stream cfg opts hig crcs₁ crcs₂ c cs₁ cs₂ t body hlen hcs₁ ht hb hf hbad

/-- **… for every delivery.**  The corrupted stream cut into pieces in any way: the run fails; it reports `ImageEnd` only if the
    chunks before the bad record contain an `IEND` that did (then the rest is refused); the error is `CrcMismatch` under the
    condition of `C11_crc_checked_stream` (5). -/
theorem C11_crc_checked_stream_deliveries (cfg : Cfg) (hI : cfg.InflateOk) (opts : Options) (hig : opts.ignoreCrc = false)
    (crcs₁ crcs₂ : List Crc4) (c : Crc4) (cs₁ cs₂ : List (ChunkType × Bytes)) (t : ChunkType) (body : Bytes)
    (hlen : crcs₁.length = cs₁.length) (hcs₁ : FieldsOk cs₁) (ht : t < 2 ^ 32) (hb : body.length < 2 ^ 32)
    (hf : CrcFatal opts t) (hbad : c.val ≠ cfg.crc (typeBytes t ++ body)) (ps : List Bytes)
    (hp : ps.flatten = streamWith (crcs₁ ++ c :: crcs₂) (cs₁ ++ (t, body) :: cs₂)) :
    (feedPieces cfg (Dec.new opts) ps).2.2 ≠ none ∧
    (feedPieces cfg (Dec.new opts) ps).1.state = none ∧
    (.imageEnd ∈ (feedPieces cfg (Dec.new opts) ps).2.1 →
      .imageEnd ∈ (runF cfg (Dec.new opts) (streamWith crcs₁ cs₁)).2.1) ∧
    (∀ c' : Crc4, (runF cfg (Dec.new opts) (streamWith (crcs₁ ++ [c']) (cs₁ ++ [(t, body)]))).2.2 = none →
      (feedPieces cfg (Dec.new opts) ps).2.2 = some (.format "CrcMismatch")) :=
  bad_crc_stream_deliveries cfg hI opts hig crcs₁ crcs₂ c cs₁ cs₂ t body hlen hcs₁ ht hb hf hbad ps hp

/-- **Runs split exactly at chunk-record boundaries** (what the two theorems above rest on; no `InflateOk`, no projection):
    from a chunk boundary, the run over `records ++ Y` handed over in one buffer is the run over the records followed —
    unless it failed — by the run over `Y` from the decoder it ended in, which is at a chunk boundary again (expecting a length
    field, or finished by `IEND`).  Any chunk kinds, any order, any stored CRC bytes, any options. -/
theorem C11_runs_split_at_records (cfg : Cfg) (crcs : List Crc4) (cs : List (ChunkType × Bytes)) (hcs : FieldsOk cs) (d : Dec)
    (hd : ChunkBoundary d) (Y : Bytes) :
    runF cfg d (recsWith crcs cs ++ Y) = (runF cfg d (recsWith crcs cs)).bind (fun d1 => runF cfg d1 Y) ∧
    ((runF cfg d (recsWith crcs cs)).2.2 = none → ChunkBoundary (runF cfg d (recsWith crcs cs)).1) :=
  runF_recs_append cfg crcs cs hcs d hd Y

/-! ## Adler-32 -/

/-- **The model's `adler` is Adler-32 as defined in RFC 1950** (section 8.2: `s1 = 1 + Σ bytes`, `s2 = Σ s1`, both modulo
    65521; value `s2 · 65536 + s1`) -/
theorem adler_is_rfc1950 (b : ByteArray) : Inf.adler b = Inf.adlerSpec b.toList := Inf.adler_eq_spec b

/-- **The Adler-32 policy of the zlib wrapper, for ANY four trailer bytes.**  Suppose the unchecked prefix-mode inflater
    answers `done o n` on `pre ++ tr ++ post` with `n = |pre| + 4`: the deflate part is valid and ends inside `pre`, `tr` are the
    four trailer bytes, `post` whatever was delivered after them.  Replace the trailer by ANY four bytes `t0 t1 t2 t3` (and `post`
    by anything of the same length):
    * check OFF — the answer does not change: same output, same completion status, same number of bytes consumed;
    * check ON — the stream is accepted (with that same answer) IFF `t0 t1 t2 t3` is the big-endian Adler-32 (RFC 1950) of the
      output; otherwise it is `bad` (corrupt). -/
theorem adler_trailer_bytes (pre tr post : Bytes) (limit : Nat) (o : ByteArray) (htr : tr.length = 4)
    (h : Inf.zlibPrefix (ofList (pre ++ tr ++ post)) false limit = .done o (pre.length + 4))
    (t0 t1 t2 t3 : UInt8) (post' : Bytes) (hpost : post'.length = post.length) :
    Inf.zlibPrefix (ofList (pre ++ [t0, t1, t2, t3] ++ post')) false limit = .done o (pre.length + 4) ∧
    (Inf.zlibPrefix (ofList (pre ++ [t0, t1, t2, t3] ++ post')) true limit = .done o (pre.length + 4) ↔
      be32 t0 t1 t2 t3 = Inf.adlerSpec o.toList) ∧
    (be32 t0 t1 t2 t3 ≠ Inf.adlerSpec o.toList →
      Inf.zlibPrefix (ofList (pre ++ [t0, t1, t2, t3] ++ post')) true limit = .bad) :=
  Inf.zlibPrefix_trailer_bytes pre tr post limit o htr h t0 t1 t2 t3 post' hpost

/-- the unchecked inflater's answer `done o n` depends on nothing but the first `n - 4` bytes and the size of the input -/
theorem adler_off_reads_no_trailer (z z' : ByteArray) (limit : Nat) (o : ByteArray) (n : Nat)
    (h : Inf.zlibPrefix z false limit = .done o n) (hsize : z.size = z'.size) (hsame : ∀ i, i < n - 4 → z[i]! = z'[i]!) :
    Inf.zlibPrefix z' false limit = .done o n :=
  Inf.zlibPrefix_off_trailer_indep z z' limit o n h ⟨hsize, hsame⟩

/-- the same through the `Cfg` instances of the driver: with any four bytes in the trailer position `realCfg false` says
    "complete, output `o`", `realCfg true` says so iff they are the Adler-32 of `o` and "corrupt" (`none`) otherwise -/
theorem adler_trailer_bytes_realCfg (pre tr post : Bytes) (o : ByteArray) (htr : tr.length = 4)
    (h : Inf.zlibPrefix (ofList (pre ++ tr ++ post)) false = .done o (pre.length + 4))
    (t0 t1 t2 t3 : UInt8) (post' : Bytes) (hpost : post'.length = post.length) :
    (Driver.realCfg false).inflate (pre ++ [t0, t1, t2, t3] ++ post') = some (o.toList, true) ∧
    (Driver.realCfg true).inflate (pre ++ [t0, t1, t2, t3] ++ post') =
      if be32 t0 t1 t2 t3 = Inf.adlerSpec o.toList then some (o.toList, true) else none :=
  realCfg_trailer_bytes pre tr post o htr h t0 t1 t2 t3 post' hpost

/-- **The trailer check in one equation**: the answer of the prefix-mode inflater with the check ON is its answer with the
    check OFF, except that a complete stream (`done o n`) whose stored trailer (the four bytes before position `n`) is not the
    Adler-32 of the output `o` is `bad` -/
theorem adler_check_equation (z : ByteArray) (limit : Nat) :
    Inf.zlibPrefix z true limit =
      match Inf.zlibPrefix z false limit with
      | .done o n => if Inf.trailerAt z (n - 4) ≠ Inf.adler o then .bad else .done o n
      | p => p := Inf.zlibPrefix_on_eq z limit

/-- **Check ON**: a stream whose deflate part is valid and whose trailer has arrived (the unchecked inflater says `done o n`)
    is accepted — same output, same length — IFF the stored trailer equals the RFC 1950 Adler-32 of the output; otherwise it is
    corrupt -/
theorem adler_on_accepts_iff (z : ByteArray) (limit : Nat) (o : ByteArray) (n : Nat)
    (h : Inf.zlibPrefix z false limit = .done o n) :
    (Inf.zlibPrefix z true limit = .done o n ↔ Inf.trailerAt z (n - 4) = Inf.adlerSpec o.toList) ∧
    (Inf.trailerAt z (n - 4) ≠ Inf.adlerSpec o.toList → Inf.zlibPrefix z true limit = .bad) :=
  Inf.zlibPrefix_on_accepts_iff z limit o n h

/-- **Check OFF does not care whether the trailer is right**: everything the checking inflater answers (`done` with output and
    length, or `more`) the unchecked one answers identically, and where the checking one says `bad` only because of the
    trailer the unchecked one says `done`; an unchecked `bad` is a checked `bad` -/
theorem adler_off_ignores_trailer_value (z : ByteArray) (limit : Nat) :
    (∀ o n, Inf.zlibPrefix z true limit = .done o n → Inf.zlibPrefix z false limit = .done o n) ∧
    (∀ o, Inf.zlibPrefix z true limit = .more o ↔ Inf.zlibPrefix z false limit = .more o) ∧
    (Inf.zlibPrefix z false limit = .bad → Inf.zlibPrefix z true limit = .bad) :=
  Inf.zlibPrefix_on_le_off z limit

/-- **The policy as the framing model sees it** (`Driver.realCfg checkAdler`, chosen by the driver as
    `realCfg (!opts.ignoreAdler)`): the two instances differ in nothing but `inflate`; `inflate` with the check ON is `inflate`
    with the check OFF except that a complete stream with a wrong stored Adler-32 is corrupt (`none`) -/
theorem adler_policy_realCfg (z : Bytes) :
    (Driver.realCfg false).crc = (Driver.realCfg true).crc ∧
    (Driver.realCfg false).inflateBounded = (Driver.realCfg true).inflateBounded ∧
    (Driver.realCfg false).utf8Ok = (Driver.realCfg true).utf8Ok ∧
    ((Driver.realCfg true).inflate z =
      match Inf.zlibPrefix (ofList z) false with
      | .done o n => if Inf.trailerAt (ofList z) (n - 4) ≠ Inf.adlerSpec o.toList then none else some (o.toList, true)
      | .more o => some (o.toList, false)
      | .bad => none) ∧
    ((Driver.realCfg false).inflate z =
      match Inf.zlibPrefix (ofList z) false with
      | .done o _ => some (o.toList, true)
      | .more o => some (o.toList, false)
      | .bad => none) :=
  ⟨rfl, rfl, rfl, realCfg_inflate_on_eq z, realCfg_inflate_off z⟩

/-- **Disabling the Adler-32 check changes nothing else.**  For every decoder, every input and every fuel: the run with the
    check OFF and the run with the check ON are identical — events, errors, final decoder —, or the checked run ends with
    `Format(CorruptFlateStream)` having reported a prefix of the events of the unchecked one.  In particular a checked run that
    does not end with that error IS the unchecked run. -/
theorem adler_off_changes_nothing_else (f : Nat) (d : Dec) (buf : Bytes) :
    (run (Driver.realCfg false) f d buf = run (Driver.realCfg true) f d buf ∨
      ((run (Driver.realCfg true) f d buf).2.2 = some (.format "CorruptFlateStream") ∧
       (run (Driver.realCfg true) f d buf).2.1 <+: (run (Driver.realCfg false) f d buf).2.1)) ∧
    ((run (Driver.realCfg true) f d buf).2.2 ≠ some (.format "CorruptFlateStream") →
      run (Driver.realCfg false) f d buf = run (Driver.realCfg true) f d buf) :=
  ⟨run_inflateLe realCfg_inflateLe f d buf, run_inflateLe_of_ok realCfg_inflateLe f d buf⟩

/-- the same for ANY two `Cfg`s of which one accepts, with the same answer, whatever the other accepts -/
theorem adler_off_changes_nothing_else_cfg (on off : Cfg) (h : Cfg.InflateLe on off) (f : Nat) (d : Dec) (buf : Bytes) :
    run off f d buf = run on f d buf ∨
    ((run on f d buf).2.2 = some (.format "CorruptFlateStream") ∧ (run on f d buf).2.1 <+: (run off f d buf).2.1) :=
  run_inflateLe h f d buf

/-- **Check enabled ⇒ a wrong Adler-32 is a `Format` error**, raised by the `ImageData` step that hands the inflater the last
    byte of the trailer (at the latest the one before the flush; the flush itself refuses a stream that is corrupt or
    incomplete: `C10.corrupt_stream_rejected`): if, with the bytes of this call, the unchecked inflater sees a complete
    stream with output `o` and the stored trailer is not the Adler-32 of `o`, the step of the checking model fails with
    `Format(CorruptFlateStream)` — while the unchecked model accepts the same bytes. -/
theorem adler_on_mismatch_is_format_error (d : Dec) (t : ChunkType) (buf : Bytes) (o : ByteArray) (n : Nat)
    (hz : Inf.zlibPrefix (ofList (d.zin ++ buf.take (min buf.length d.remaining))) false = .done o n)
    (hbad : Inf.trailerAt (ofList (d.zin ++ buf.take (min buf.length d.remaining))) (n - 4) ≠ Inf.adlerSpec o.toList) :
    stepImage (Driver.realCfg true) d t buf = .error (.format "CorruptFlateStream") ∧
    (∃ r, stepImage (Driver.realCfg false) d t buf = .ok r) := by
  constructor
  · have : (Driver.realCfg true).inflate (d.zin ++ buf.take (min buf.length d.remaining)) = none := by
      rw [realCfg_inflate_on_eq, hz]; simp only; rw [if_pos hbad]
    unfold stepImage; simp only [this]
  · have : (Driver.realCfg false).inflate (d.zin ++ buf.take (min buf.length d.remaining)) = some (o.toList, true) := by
      rw [realCfg_inflate_off, hz]
    unfold stepImage; simp only [this]
    exact ⟨_, rfl⟩

/-! ## non-vacuity -/
section examples
open Png.Framing.Toy

/-- IHDR (1×1, 8-bit gray), gAMA = 100000, IDAT (toy stream `[2, 7, 9]`: payload `[7, 9]`), IEND -/
def exChunks : List (ChunkType × Bytes) :=
  [(IHDR, [0, 0, 0, 1, 0, 0, 0, 1, 8, 0, 0, 0, 0]), (gAMA, [0, 1, 134, 160]), (IDAT, [2, 7, 9]), (IEND, [])]

example : FieldsOk exChunks := by decide

/-- `streamWith` is the byte stream one expects (all stored CRCs zero = the toy CRC), and with the right CRCs it is the
    specification's chunk sequence for any `cfg` -/
example : streamWith [] exChunks = sig ++ ihdr ++ chunkBytes gAMA [0, 1, 134, 160] [0, 0, 0, 0] ++ idat ++ iend := by decide
example (cfg : Cfg) (cs : List (ChunkType × Bytes)) :
    WellFormed.signature ++ WellFormed.chunks cfg cs =
      streamWith (cs.map fun c => Crc4.ofNat (cfg.crc (typeBytes c.1 ++ c.2))) cs := by
  rw [chunks_eq_recsWith]; rfl

/-- `C11_ignore_crc_stream`: all four stored CRCs wrong; the stream decodes (image data `[7, 9]`, gamma, `ImageEnd`) exactly
    as the one with the right CRCs; the events differ only in the reported CRC values -/
example :
    let A := runF toyCfg (Dec.new { ignoreCrc := true }) (streamWith [] exChunks)
    let B := runF toyCfg (Dec.new { ignoreCrc := true })
      (streamWith [(1, 2, 3, 4), (5, 6, 7, 8), (9, 9, 9, 9), (255, 0, 0, 1)] exChunks)
    A.1 = B.1 ∧ A.2.2 = none ∧ A.1.out = [7, 9] ∧ (A.1.info.bind (·.gama)) = some 100000 ∧
    A.2.1.getLast? = some .imageEnd ∧ A.2.1 ≠ B.2.1 ∧ A.2.1.map eraseCrc = B.2.1.map eraseCrc :=
  ⟨(C11_ignore_crc_stream toyCfg { ignoreCrc := true } rfl _ _ exChunks (by decide)).1,
   by decide +kernel, by decide +kernel, by decide +kernel, by decide +kernel, by decide +kernel, by decide +kernel⟩

/-- an INVALID chunk order (IDAT before IHDR … here: gAMA twice and no IEND) is covered too: same error either way -/
example :
    let cs := [exChunks[0], exChunks[1], exChunks[1]]
    (runF toyCfg (Dec.new { ignoreCrc := true }) (streamWith [(1, 1, 1, 1), (2, 2, 2, 2), (3, 3, 3, 3)] cs)).2.2 =
      (runF toyCfg (Dec.new { ignoreCrc := true }) (streamWith [] cs)).2.2 ∧
    (runF toyCfg (Dec.new { ignoreCrc := true }) (streamWith [] [(gAMA, [0, 1, 134, 160])])).2.2 =
      some (.format "ChunkBeforeIhdr") := by
  decide +kernel

/-- `C11_ignore_crc_stream_deliveries`: the wrong-CRC stream byte by byte against the right-CRC stream in one piece -/
example :
    let ps := (streamWith [(1, 2, 3, 4), (5, 6, 7, 8), (9, 9, 9, 9), (255, 0, 0, 1)] exChunks).map fun b => [b]
    let qs := [streamWith [] exChunks]
    (feedPieces toyCfg (Dec.new { ignoreCrc := true }) ps).1 = (feedPieces toyCfg (Dec.new { ignoreCrc := true }) qs).1 ∧
    (feedPieces toyCfg (Dec.new { ignoreCrc := true }) ps).1.out = [7, 9] :=
  ⟨(C11_ignore_crc_stream_deliveries toyCfg toy_inflateOk { ignoreCrc := true } rfl
      [(1, 2, 3, 4), (5, 6, 7, 8), (9, 9, 9, 9), (255, 0, 0, 1)] [] exChunks (by decide) _ _
      (by decide) (by decide)).2.2.1 (by decide +kernel), by decide +kernel⟩

/-- `C11_crc_checked_stream`: default options, IHDR, then an IDAT whose stored CRC is 1 (the toy CRC is 0), then IEND: the run
    fails with `CrcMismatch`, is poisoned, reports no `ImageEnd`; hypotheses and condition (5) hold -/
example :
    let R := runF toyCfg (Dec.new {}) (streamWith ([(0, 0, 0, 0)] ++ (0, 0, 0, 1) :: [(0, 0, 0, 0)])
      ([exChunks[0]] ++ (IDAT, [2, 7, 9]) :: [(IEND, [])]))
    R.2.2 = some (.format "CrcMismatch") ∧ R.1.state = none ∧ .imageEnd ∉ R.2.1 ∧ CrcFatal {} IDAT ∧
    Crc4.val (0, 0, 0, 1) ≠ toyCfg.crc (typeBytes IDAT ++ [2, 7, 9]) ∧
    (runF toyCfg (Dec.new {}) (streamWith ([(0, 0, 0, 0)] ++ [(0, 0, 0, 0)]) ([exChunks[0]] ++ [(IDAT, [2, 7, 9])]))).2.2 = none :=
  have h := C11_crc_checked_stream toyCfg {} rfl [(0, 0, 0, 0)] [(0, 0, 0, 0)] (0, 0, 0, 1) [exChunks[0]] [(IEND, [])] IDAT
    [2, 7, 9] rfl (by decide) (by decide) (by decide) (by decide) (by decide)
  ⟨h.2.2.2.2.2 (0, 0, 0, 0) (by decide +kernel), h.2.2.1, by decide +kernel, by decide, by decide, by decide +kernel⟩

/-- the same for an fdAT chunk (not critical, never skipped since d89703f) and for a chunk refused for its content whatever
    the CRC (a second IHDR: the error is the parser's, not `CrcMismatch`) -/
example :
    CrcFatal {} fdAT ∧ ¬ CrcFatal {} gAMA ∧ CrcFatal { skipAncillaryCrcFailures := false } gAMA ∧
    (runF toyCfg (Dec.new {}) (streamWith [(0, 0, 0, 0), (0, 0, 0, 1)] [exChunks[0], exChunks[0]])).2.2 =
      some (.format "DuplicateChunk IHDR") := by
  decide +kernel

/-- Adler-32: `a` as a stored block, right and wrong trailer, through the driver's `Cfg` instances -/
def zA : Bytes := [0x78, 0x01, 0x01, 0x01, 0x00, 0xfe, 0xff, 0x61, 0x00, 0x62, 0x00, 0x62]
def zBadTrailer : Bytes := [0x78, 0x01, 0x01, 0x01, 0x00, 0xfe, 0xff, 0x61, 0x00, 0x62, 0x00, 0x63]

example : Inf.adlerSpec [0x61] = 0x00620062 := by decide

example :
    (Driver.realCfg true).inflate zA = some ([0x61], true) ∧ (Driver.realCfg false).inflate zA = some ([0x61], true) ∧
    (Driver.realCfg false).inflate zBadTrailer = some ([0x61], true) ∧ (Driver.realCfg true).inflate zBadTrailer = none ∧
    (Driver.realCfg true).inflate (zBadTrailer.take 11) = some ([0x61], false) := by
  decide +kernel

/-- the hypotheses of `adler_on_accepts_iff` / `adler_on_mismatch_is_format_error` are satisfiable: the unchecked inflater
    says `done` and the stored trailer is not the Adler-32 of the output -/
example : ∃ o n, Inf.zlibPrefix (ofList zBadTrailer) false = .done o n ∧
    Inf.trailerAt (ofList zBadTrailer) (n - 4) ≠ Inf.adlerSpec o.toList := by
  obtain ⟨_, o, n, h1, _, h3⟩ := realCfg_off_not_on zBadTrailer ([0x61], true) (by decide +kernel) (by decide +kernel)
  exact ⟨o, n, h1, h3⟩

/-- `adler_trailer_bytes`: its hypothesis holds for the stored-block stream `zA` (`pre` = its first 8 bytes, `tr` = its last
    four, one more byte delivered after them): so with the check off EVERY trailer gives output `a`, with the check on exactly
    `00 62 00 62` does -/
example : ∃ o, Inf.zlibPrefix (ofList (zA.take 8 ++ zA.drop 8 ++ [0x55])) false = .done o ((zA.take 8).length + 4) ∧
    o.toList = [0x61] :=
  (Inf.Progress.doneWith_iff _ _ _).1 (by decide +kernel)

example (t0 t1 t2 t3 b : UInt8) :
    (Driver.realCfg false).inflate (zA.take 8 ++ [t0, t1, t2, t3] ++ [b]) = some ([0x61], true) ∧
    (Driver.realCfg true).inflate (zA.take 8 ++ [t0, t1, t2, t3] ++ [b]) =
      if be32 t0 t1 t2 t3 = 0x00620062 then some ([0x61], true) else none := by
  obtain ⟨o, h, ho⟩ := (Inf.Progress.doneWith_iff (Inf.zlibPrefix (ofList (zA.take 8 ++ zA.drop 8 ++ [0x55])) false)
    [0x61] ((zA.take 8).length + 4)).1 (by decide +kernel)
  have := adler_trailer_bytes_realCfg (zA.take 8) (zA.drop 8) [0x55] o rfl h t0 t1 t2 t3 [b] rfl
  rw [ho] at this
  exact this

example : Cfg.InflateLe (Driver.realCfg true) (Driver.realCfg false) := realCfg_inflateLe

end examples

end Png.C11
