import PngVerif.Proofs.LazyTop
/-!
# C04 at the `Reader` level, for EVERY laziness of the inflater  (`Model/LazyReader.lean`)

`Model/Reader.lean` runs the `Reader` over an eager inflater (`ZInv`: the end of a data-chunk sequence brings no
image data); defects D23 / D24 live in states it cannot reach (DESIGN.md, Appendix E).  The model used here
abstracts everything except the call protocol and takes the ARRIVAL of image data as a parameter: for each frame,
how many bytes each `decode_image_data` call brings and how many arrive together with
`ImageDataCompletionStatus::Done`.  The theorems quantify over all files, all arrivals and all call sequences.

A run starts after `Decoder::read_info` (`init`); `rem0` is the initial `remaining_frames` (at least 1 as the crate
computes it, mod.rs:234-247).
-/
namespace Png.C04Lazy
open Png.Lazy

/-- the runs the theorems speak about: a source that hands out exactly each frame's data, `remaining_frames ≥ 1`,
    the state after `read_info` -/
structure Start (e : Env) (rem0 : Nat) (s0 : St) : Prop where
  valid : e.Valid
  rem_pos : 1 ≤ rem0
  init : init e rem0 = some s0

/-! ## 1. no panic -/

/-- **No call panics, for any arrival.**  In particular `assert!(self.remaining_frames > 0)` (mod.rs:482),
    `assert!(self.subframe.current_interlace_info.is_none())` (mod.rs:493), the `unreachable!` of
    `decode_image_data` (read_decoder.rs:138, reached if it were called outside a data sequence), the
    `assert!(buf.is_empty())` of `read_until_image_data` (read_decoder.rs:79, reached if it were called inside one)
    never fire, and no loop of the model runs out of fuel.  The invariant is `Png.Lazy.Inv`. -/
theorem lazy_no_panic (e : Env) (rem0 : Nat) (s0 : St) (h : Start e rem0 s0) (ops : List Op) :
    ∀ r ∈ (run e s0 ops).2, ∀ site, r ≠ .panic site :=
  run_no_panic e h.valid ops s0 (init_good e h.valid rem0 h.rem_pos s0 h.init).1

/-- **The model refines its source-free specification, for any arrival**: every run is a run of
    `Png.Lazy.Spec` (which only knows the file) for the oracle bits `cafs` = `consumed_and_flushed` after each
    call — the one thing that depends on the arrival. -/
theorem lazy_refines_spec (e : Env) (rem0 : Nat) (s0 : St) (h : Start e rem0 s0) (ops : List Op) :
    Spec.init e.frames rem0 = some s0.abs ∧
    Spec.run e.frames s0.abs ops (cafs e s0 ops) = ((run e s0 ops).1.abs, (run e s0 ops).2) :=
  run_is_spec_run e h.valid rem0 h.rem_pos s0 h.init ops

/-! ## 2. rows: exact, in order, backed by data -/

/-- **Row accounting of any run, for any arrival.**  With `rs` the results of the calls:
    (a) the frames the results speak about never go back (no row of a frame after a later frame started);
    (b) for every frame `k` the row-units handed out by row calls and the row-units written by `next_frame` calls,
        taken together in the order of the calls, are `0, 1, …, d-1` for some `d ≤ rows k`: disjoint, in order,
        none twice, none skipped;
    (c) when a `next_frame` call succeeds on frame `k`, everything handed out for `k` up to and including that call is
        exactly `0 … rows k - 1`;
    (d) every row-unit handed out is covered by the data of its frame (`Backed`): no row is fabricated. -/
theorem lazy_rows_exact (e : Env) (rem0 : Nat) (s0 : St) (h : Start e rem0 s0) (ops : List Op) :
    ((run e s0 ops).2.filterMap frameOf).Pairwise (· ≤ ·) ∧
    (∀ k, ∃ d, d ≤ rowsLen e.frames k ∧ delivered k (run e s0 ops).2 = List.range d) ∧
    (∀ p k w, (run e s0 ops).2[p]? = some (.frame k w) →
        delivered k ((run e s0 ops).2.take (p + 1)) = List.range (rowsLen e.frames k)) ∧
    (∀ r ∈ (run e s0 ops).2, Backed e.frames r) := by
  have hh := (run_hist e h.valid rem0 h.rem_pos s0 h.init ops).1
  exact ⟨hh.sorted, hh.pref, hh.done, hh.backed⟩

/-- in every reachable state the subframe the reader works on is the frame of the file -/
theorem lazy_sub_is_file (e : Env) (rem0 : Nat) (s0 : St) (h : Start e rem0 s0) (ops : List Op) :
    (run e s0 ops).1.sub = rowlensOf e.frames (run e s0 ops).1.fi :=
  Spec.sub_eq_rowlensOf (run_hist e h.valid rem0 h.rem_pos s0 h.init ops).2

/-- **Short data gives `NoMoreImageData`, for any arrival**: in any reachable state whose next row-unit `i` is not
    covered by the frame's data (`avail < Σ rowlens[0..i]`), a row call and a frame call both answer
    `NoMoreImageData`. -/
theorem lazy_short_data (e : Env) (rem0 : Nat) (s0 : St) (h : Start e rem0 s0) (ops : List Op) (i : Nat)
    (hc : (run e s0 ops).1.cur = some i)
    (hcov : covers (rowlensOf e.frames (run e s0 ops).1.fi) (Spec.availOf e.frames (run e s0 ops).1.fi) i = false) :
    (step e (run e s0 ops).1 .nextRow).2 = .err .noMoreImageData ∧
    (step e (run e s0 ops).1 .nextFrame).2 = .err .noMoreImageData := by
  have hg := run_good e h.valid ops s0 (init_good e h.valid rem0 h.rem_pos s0 h.init).1
  have hsi := (run_hist e h.valid rem0 h.rem_pos s0 h.init ops).2
  rw [← lazy_sub_is_file e rem0 s0 h ops] at hcov
  generalize (run e s0 ops).1 = s at hg hsi hc hcov
  have hca : s.abs.cur = some i := hc
  constructor
  · have := congrArg Prod.snd (nextRow_refines e s hg).2
    simp only [step]
    simp only at this
    rw [this, Spec.nextRow_some hca]
    have : covers s.abs.sub (Spec.availOf e.frames s.abs.fi) i = false := hcov
    simp [this]
  · have := congrArg Prod.snd (nextFrame_refines e h.valid s hg).2
    simp only [step]
    simp only at this
    rw [this, Spec.nextFrame_cur hca]
    unfold Spec.frameInto
    have hlt : i < s.abs.sub.length := hsi.cur_lt i hca
    have hnd : ¬ i < nDeliv s.abs.sub (Spec.availOf e.frames s.abs.fi) := by
      intro hlt'
      have := (covers_iff_lt_nDeliv s.abs.sub _ i hlt).2 hlt'
      have hcov' : covers s.abs.sub (Spec.availOf e.frames s.abs.fi) i = false := hcov
      simp [hcov'] at this
    simp only [hca, Option.getD_some]
    have : max i (nDeliv s.abs.sub (Spec.availOf e.frames s.abs.fi)) < s.abs.sub.length := by omega
    simp [this]

/-! ## 3. independence of the arrival -/

/-- The full-strength statement: the results of ANY call sequence are the same for any two arrivals of the same
    file.  It is FALSE for the code as it is (`lazy_D24_counterexample`, finding D24 of DESIGN.md): the theorems
    below hold for the call sequences `polledRes` in which `next_frame` is not issued right after a row call
    delivered the last row of a frame. -/
def lazy_arrival_independent_statement : Prop :=
  ∀ (e1 e2 : Env) (rem0 : Nat) (s1 s2 : St), e1.frames = e2.frames → Start e1 rem0 s1 → Start e2 rem0 s2 →
    rem0 ≤ e1.frames.length → ∀ ops : List Op, (run e1 s1 ops).2 = (run e2 s2 ops).2

/-- **Delivery independence for every laziness of the inflater** (`_partial`: the call sequences are `Polled`).
    For a file that contains the frames it declares (`rem0 ≤` number of frames; every reference-built file), any two
    arrivals `e1.arrs`, `e2.arrs` of its image data and any call sequence in which `next_frame` is never issued in
    the state "all rows of the current frame were delivered by row calls, the final `None` not yet polled"
    (`polledRes`; `next_frame_info` and `finish` ARE allowed there), the lists of results are equal. -/
theorem lazy_arrival_independent_partial (e1 e2 : Env) (rem0 : Nat) (s1 s2 : St) (hf : e1.frames = e2.frames)
    (h1 : Start e1 rem0 s1) (h2 : Start e2 rem0 s2) (hc : rem0 ≤ e1.frames.length) (ops : List Op)
    (hp : polledRes e1.frames false ops (run e1 s1 ops).2 = true) :
    (run e1 s1 ops).2 = (run e2 s2 ops).2 :=
  arrival_independent_nofatal e1 e2 hf h1.valid h2.valid rem0 h1.rem_pos s1 s2 h1.init h2.init ops hp
    (complete_nofatal e1 h1.valid rem0 h1.rem_pos hc s1 h1.init ops)

/-- the same for ANY file (also one with fewer frames than its `acTL` declares): the results agree up to and
    including the first failed `read_until_image_data` (`MissingImageData`, or `UnexpectedEof` after `IEND`).
    What follows such a failure can depend on the arrival: `lazy_missing_frame_counterexample`. -/
theorem lazy_arrival_independent_upto_fatal (e1 e2 : Env) (rem0 : Nat) (s1 s2 : St) (hf : e1.frames = e2.frames)
    (h1 : Start e1 rem0 s1) (h2 : Start e2 rem0 s2) (ops : List Op)
    (hp : polledRes e1.frames false ops (run e1 s1 ops).2 = true) :
    cutFatal (run e1 s1 ops).2 = cutFatal (run e2 s2 ops).2 :=
  arrival_independent_cut e1 e2 hf h1.valid h2.valid rem0 h1.rem_pos s1 s2 h1.init h2.init ops hp

/-- a complete file never fails in `read_until_image_data`, whatever is called -/
theorem lazy_complete_no_fatal (e : Env) (rem0 : Nat) (s0 : St) (h : Start e rem0 s0) (hc : rem0 ≤ e.frames.length)
    (ops : List Op) : ∀ r ∈ (run e s0 ops).2, fatal r = false :=
  complete_nofatal e h.valid rem0 h.rem_pos hc s0 h.init ops

/-- whether a call sequence is `Polled` does not depend on the arrival either -/
theorem lazy_polled_arrival_independent (e1 e2 : Env) (rem0 : Nat) (s1 s2 : St) (hf : e1.frames = e2.frames)
    (h1 : Start e1 rem0 s1) (h2 : Start e2 rem0 s2) (hc : rem0 ≤ e1.frames.length) (ops : List Op)
    (hp : polledRes e1.frames false ops (run e1 s1 ops).2 = true) :
    polledRes e2.frames false ops (run e2 s2 ops).2 = true := by
  rw [← lazy_arrival_independent_partial e1 e2 rem0 s1 s2 hf h1 h2 hc ops hp, ← hf]; exact hp

/-- the class named in the task (neither `next_frame` nor `next_frame_info` nor `finish` in the D24 state) is
    contained in `polledRes` -/
theorem polled_of_strict (fr : List Frame) : ∀ (ops : List Op) (u : Bool) (rs : List Res),
    polledStrictRes fr u ops rs = true → polledRes fr u ops rs = true := by
  intro ops
  induction ops with
  | nil => intro u rs _; cases rs <;> rfl
  | cons op ops ih =>
    intro u rs h
    cases rs with
    | nil => rfl
    | cons r rs =>
      simp only [polledStrictRes, polledRes, Bool.and_eq_true, Bool.or_eq_true] at h ⊢
      refine ⟨?_, ?_⟩
      · rcases h.1 with h1 | h1
        · left; cases op <;> simp_all
        · right; exact h1
      · rcases h.2 with h2 | h2
        · left; exact h2
        · right; exact ih _ _ h2

/-! ## 4. the `Polled` hypothesis is necessary (finding D24), and so is "up to the first failure" -/

/-- a still image of two rows of three bytes -/
def d24File : List Frame := [⟨[3, 3], 6⟩]
/-- small pieces: the data arrives before the end of the chunk sequence is seen -/
def d24Eager : Env := ⟨false, d24File, [Arrival.eager 6]⟩
/-- one large piece: everything arrives together with `Done` -/
def d24Lazy : Env := ⟨false, d24File, [Arrival.lazyAll 6]⟩

def runFrom (e : Env) (rem0 : Nat) (ops : List Op) : Option (List Res) :=
  (init e rem0).map fun s => (run e s ops).2

/-- **D24**: both rows read by row calls, the final `None` not polled, then `next_frame`: with the data in small
    pieces the call answers `Ok` for the current frame (nothing left to write), with one large piece
    `PolledAfterEndOfImage`.  The sequence is not `Polled`. -/
theorem lazy_D24_counterexample :
    runFrom d24Eager 1 [.nextRow, .nextRow, .nextFrame] = some [.row 0 0, .row 0 1, .frame 0 []] ∧
    runFrom d24Lazy 1 [.nextRow, .nextRow, .nextFrame] = some [.row 0 0, .row 0 1, .err .polled] ∧
    polledRes d24File false [.nextRow, .nextRow, .nextFrame] [.row 0 0, .row 0 1, .frame 0 []] = false := by
  decide

/-- ... and one more row poll in front of the call makes the two deliveries agree (the recorded class
    `reader/mixed-calls-differ/next_frame-after-all-rows-unpolled`) -/
theorem lazy_D24_repolled :
    runFrom d24Eager 1 [.nextRow, .nextRow, .nextRow, .nextFrame] = some [.row 0 0, .row 0 1, .none, .err .polled] ∧
    runFrom d24Lazy 1 [.nextRow, .nextRow, .nextRow, .nextFrame] = some [.row 0 0, .row 0 1, .none, .err .polled] ∧
    polledRes d24File false [.nextRow, .nextRow, .nextRow, .nextFrame] [.row 0 0, .row 0 1, .none, .err .polled]
      = true := by
  decide

/-- the states after `read_info` of the two deliveries -/
def d24S1 : St :=
  { rem := 1, fi := 0, sub := [3, 3], cur := some 0, caf := false, buf := 0, finished := false,
    src := some (Arrival.eager 6), atEnd := false }
def d24S2 : St :=
  { rem := 1, fi := 0, sub := [3, 3], cur := some 0, caf := false, buf := 0, finished := false,
    src := some (Arrival.lazyAll 6), atEnd := false }

/-- the full-strength statement is false -/
theorem lazy_arrival_independent_statement_false : ¬ lazy_arrival_independent_statement := by
  intro h
  have h1 : Start d24Eager 1 d24S1 := ⟨valid_of_validB _ rfl, by decide, rfl⟩
  have h2 : Start d24Lazy 1 d24S2 := ⟨valid_of_validB _ rfl, by decide, rfl⟩
  have := h d24Eager d24Lazy 1 _ _ rfl h1 h2 (by decide) [.nextRow, .nextRow, .nextFrame]
  revert this
  decide

/-- an animation that declares two frames (`rem0 = 2`) but contains one -/
def missingEager : Env := ⟨false, d24File, [Arrival.eager 6]⟩
def missingLazy : Env := ⟨false, d24File, [Arrival.lazyAll 6]⟩

/-- **After a failed `next_frame_info` the arrival shows** (new observation, outside what C04 compares: behaviour
    after a `Format` error): one row read, then `next_frame_info` on a file whose second frame is missing
    (`MissingImageData`), then a row call.  Small pieces: the rest of the frame was dropped (`None`).  One large piece:
    the end of the data had been seen, `next_frame_info` leaves `current_interlace_info` alone (mod.rs:356-359) and
    the row call still delivers row 1.  The sequence is `Polled`; the results agree up to the failure. -/
theorem lazy_missing_frame_counterexample :
    runFrom missingEager 2 [.nextRow, .nextFrameInfo, .nextRow] = some [.row 0 0, .err .missingImageData, .none] ∧
    runFrom missingLazy 2 [.nextRow, .nextFrameInfo, .nextRow] = some [.row 0 0, .err .missingImageData, .row 0 1] ∧
    polledRes d24File false [.nextRow, .nextFrameInfo, .nextRow] [.row 0 0, .err .missingImageData, .none] = true := by
  decide

/-! ## 5. `next_frame` with rows pending completes the CURRENT frame (repair 429476f) -/

/-- **`next_frame` while rows are pending, for any arrival**: in any reachable state with the row cursor at `i`
    — whatever `remaining_frames` and `consumed_and_flushed` are (with a lazy arrival they can be `0` and `true`:
    `pending_state_reachable`) — `next_frame` stays on the current frame: if the frame's data covers all its rows it
    writes exactly the rows `i … rows-1`, answers for the current frame and leaves it closed
    (`remaining_frames` = what `next_frame_info` counts); otherwise it answers `NoMoreImageData`.  Never
    `PolledAfterEndOfImage`, never the next frame. -/
theorem lazy_pending_rows (e : Env) (rem0 : Nat) (s0 : St) (h : Start e rem0 s0) (ops : List Op) (i : Nat)
    (hc : (run e s0 ops).1.cur = some i) :
    let s := (run e s0 ops).1
    let s' := (step e s .nextFrame).1
    s'.fi = s.fi ∧ s'.caf = true ∧ s'.rem = (if s.caf then s.rem else s.rem - 1) ∧
    (if nDeliv s.sub (Spec.availOf e.frames s.fi) = s.sub.length
     then (step e s .nextFrame).2 = .frame s.fi (List.range' i (s.sub.length - i)) ∧ s'.cur = none
     else (step e s .nextFrame).2 = .err .noMoreImageData) := by
  have hg := run_good e h.valid ops s0 (init_good e h.valid rem0 h.rem_pos s0 h.init).1
  have hsi := (run_hist e h.valid rem0 h.rem_pos s0 h.init ops).2
  generalize (run e s0 ops).1 = s at hg hsi hc
  have hca : s.abs.cur = some i := hc
  have href := (nextFrame_refines e h.valid s hg).2
  rw [Spec.nextFrame_cur hca] at href
  have hlt : i < s.sub.length := hsi.cur_lt i hca
  have hnd := Spec.nDeliv_le s.sub (Spec.availOf e.frames s.fi)
  obtain ⟨e1, e2, e3, e4, e5, e6⟩ := Spec.close_fields s.abs
  have hrem : (Spec.close s.abs).rem = if s.caf then s.rem else s.rem - 1 := by
    unfold Spec.close; cases hcaf : s.caf <;> simp [St.abs, hcaf]
  simp only [step]
  unfold Spec.frameInto at href
  have ea : s.abs.sub = s.sub := rfl
  have eb : s.abs.fi = s.fi := rfl
  simp only [hca, Option.getD_some, ea, eb] at href
  by_cases hfull : nDeliv s.sub (Spec.availOf e.frames s.fi) = s.sub.length
  · have hj : ¬ max i (nDeliv s.sub (Spec.availOf e.frames s.fi)) < s.sub.length := by omega
    rw [if_neg hj] at href
    rw [if_pos hfull]
    have hs := congrArg Prod.fst href
    have hr := congrArg Prod.snd href
    simp only at hs hr
    have f1 := congrArg Spec.A.fi hs
    have f2 := congrArg Spec.A.caf hs
    have f3 := congrArg Spec.A.rem hs
    have f4 := congrArg Spec.A.cur hs
    simp only [St.abs] at f1 f2 f3 f4
    refine ⟨by rw [f1]; exact e1, by rw [f2]; exact e6, by rw [f3]; exact hrem, hr, f4⟩
  · have hj : max i (nDeliv s.sub (Spec.availOf e.frames s.fi)) < s.sub.length := by omega
    rw [if_pos hj] at href
    rw [if_neg hfull]
    have hs := congrArg Prod.fst href
    have hr := congrArg Prod.snd href
    simp only at hs hr
    have f1 := congrArg Spec.A.fi hs
    have f2 := congrArg Spec.A.caf hs
    have f3 := congrArg Spec.A.rem hs
    simp only [St.abs] at f1 f2 f3
    exact ⟨by rw [f1]; exact e1, by rw [f2]; exact e6, by rw [f3]; exact hrem, hr⟩

/-- the state of defect D23 is reachable in this model (it is not in `Model/Reader.lean`): after one row call on a
    lazy arrival rows are pending while `remaining_frames = 0` and `consumed_and_flushed = true`; `next_frame` then
    completes the frame -/
theorem pending_state_reachable :
    (init d24Lazy 1).map (fun s => ((run d24Lazy s [.nextRow]).1.rem, (run d24Lazy s [.nextRow]).1.caf,
      (run d24Lazy s [.nextRow]).1.cur)) = some (0, true, some 1) ∧
    runFrom d24Lazy 1 [.nextRow, .nextFrame, .nextFrame] = some [.row 0 0, .frame 0 [1], .err .polled] ∧
    runFrom d24Eager 1 [.nextRow, .nextFrame, .nextFrame] = some [.row 0 0, .frame 0 [1], .err .polled] := by
  decide

/-! ## non-vacuity: the hypotheses on concrete, non-trivial values -/

/-- an interlaced animation of two frames (rows of different lengths, the second with excess data) and a third
    frame with short data; a mixed arrival -/
def exFile : List Frame := [⟨[2, 2, 3, 3, 5], 15⟩, ⟨[4, 4], 11⟩, ⟨[3, 3, 3], 7⟩]
def exEnv : Env := ⟨true, exFile, [⟨[1, 0, 5, 2], 7⟩, ⟨[0, 3], 8⟩, ⟨[7], 0⟩]⟩
def exEnv2 : Env := ⟨false, exFile, [Arrival.lazyAll 15, Arrival.eager 11, ⟨[1, 1, 1, 1, 1, 1], 1⟩]⟩

example : exEnv.Valid := valid_of_validB _ (by decide)
example : exEnv2.Valid := valid_of_validB _ (by decide)
example : ∃ s, Start exEnv 3 s ∧ 3 ≤ exEnv.frames.length := ⟨_, ⟨valid_of_validB _ (by decide), by decide, rfl⟩, by decide⟩

def exOps : List Op :=
  [.nextRow, .nextRow, .nextFrame, .nextFrameInfo, .nextRow, .nextRow, .nextRow, .nextFrameInfo, .nextRow, .nextRow,
   .nextRow, .nextFrame, .nextFrameInfo, .finish, .finish, .nextRow]

/-- both arrivals give the same results on a `Polled` sequence (as `lazy_arrival_independent_partial` says);
    the third frame has short data: two rows, then `NoMoreImageData` -/
example :
    runFrom exEnv 3 exOps = some [.row 0 0, .row 0 1, .frame 0 [2, 3, 4], .fctl 1, .row 1 0, .row 1 1, .none,
      .fctl 2, .row 2 0, .row 2 1, .err .noMoreImageData, .err .noMoreImageData, .err .polled, .ok, .err .polled,
      .none] ∧
    runFrom exEnv2 3 exOps = runFrom exEnv 3 exOps ∧
    polledRes exFile false exOps ((runFrom exEnv 3 exOps).getD []) = true := by
  decide

end Png.C04Lazy
