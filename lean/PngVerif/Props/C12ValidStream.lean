import PngVerif.Props.C12Valid
import PngVerif.Proofs.ValidatorComposeStream
/-!
# C12, second part, for programs that use `StreamWriter` — the whole validator accepts their output

The companion of `Props/C12Valid.lean` for `runProg` (any number of borrowed stream-writer sessions mixed with
`write_image_data`, closed by `finish`, a drop, or an owned stream writer): on the domain of
`C12_stream_partial` (`Cfg.WellFormed`, `Cfg.Small`, `StreamDomain` — every session complete —, the declared
number of images written), extended by `Cfg.PayloadsOk` / `Cfg.SizesOk` and `Op.passOk` / `Op.wireOk` for the
whole-image operations among the steps, the chunk list passes rules 2–6 (`C12_stream_validChunks_partial`) and
the bytes in the sink pass `validPng` (`C12_stream_valid_partial`, `…_scan_partial`, `…_stored_partial`).

What carries it: `runProg_shape` — every function of the `ChunkWriter` / `ZlibEncoder` / `StreamWriter` model,
for EVERY sink and every operation sequence, adds only fcTL, IDAT/fdAT chunks of at most 2^31-1 bytes (the chunk
buffer never exceeds its capacity `≤ CAP`), the caller's pass-through chunks, and IEND.  It stays `_partial` for
the reasons `C12_stream_partial` is (N10: abandoned sessions; `Cfg.Small`) and for those of `C12Valid.lean`.
-/
namespace Png.C12
open Png Png.Val Png.Enc Png.Spec

/-- the placement pass on the output of ANY program whose `write_header` succeeded on a sink that never fails
    (no session has to be complete, nothing has to be counted): the type sequence is always in order -/
theorem order_ok_of_program (E : Codec) (Z : Enc.ZCodec) (c : Cfg) (htx : ∀ r, some r ∈ c.texts → r.ty ∈ textTypes)
    (steps : List Step) (fin : PFinal) (hh : (writeHeader c {}).2 = .ok)
    (hr : ∀ op ∈ progOps steps, op.inRange) (hfree : ∀ op ∈ progOps steps, op.passFree) :
    orderOk ((runProg E Z c {} steps fin).state.sink.chunks.map (·.ty)) = .ok () := by
  obtain ⟨body, hb, hcs, _⟩ := runProg_chunks_bytes E Z c steps fin hh
  rw [hcs]
  exact order_ok_of_shape c (progOps steps) body htx hr hfree hb

/-- **C12 for programs over both APIs, rules 2–6 of the validator on the chunk list** -/
theorem C12_stream_validChunks_partial (imgOkOf : Ihdr → ImgRule) (E : Codec) (Z : Enc.ZCodec) (c : Cfg)
    (hw : c.WellFormed) (hsm : c.Small) (hp : c.PayloadsOk)
    (hE : Codec.OkWithin (imgOkOf (ihdrOfCfg c)) E c.color c.depth c.width c.height)
    (hZ : ZCodec.OkWithin (imgOkOf (ihdrOfCfg c)) Z c.color c.depth c.width c.height)
    (steps : List Step) (fin : PFinal) (hdom : StreamDomain E Z c steps fin)
    (hcount : (runProg E Z c {} steps fin).declaredWritten) (hpass : ∀ op ∈ progOps steps, op.passOk) :
    validChunks imgOkOf (runProg E Z c {} steps fin).state.sink.chunks = .ok () :=
  (prog_validChunks imgOkOf E Z c hw hsm hp hE hZ steps fin hdom hcount hpass).1

/-- **C12 for programs over both APIs: `validPng` accepts the bytes in the sink** -/
theorem C12_stream_valid_partial (E : Codec) (Z : Enc.ZCodec) (c : Cfg) (hw : c.WellFormed) (hsm : c.Small)
    (hp : c.PayloadsOk) (hs : c.SizesOk)
    (hE : Codec.OkWithin (realImgOk (ihdrOfCfg c)) E c.color c.depth c.width c.height)
    (hZ : ZCodec.OkWithin (realImgOk (ihdrOfCfg c)) Z c.color c.depth c.width c.height)
    (steps : List Step) (fin : PFinal) (hdom : StreamDomain E Z c steps fin)
    (hcount : (runProg E Z c {} steps fin).declaredWritten)
    (hpass : ∀ op ∈ progOps steps, op.passOk) (hwire : ∀ op ∈ progOps steps, op.wireOk) :
    validPng (ofList (runProg E Z c {} steps fin).state.sink.bytes) = .ok () :=
  prog_validPng E Z c hw hsm hp hs hE hZ steps fin hdom hcount hpass hwire

/-- … for the scanline back-ends of both writers with one compressor (any two filter choices) -/
theorem C12_stream_valid_scan_partial (compress : Bytes → Bytes) (choose chooseZ : Bytes → Bytes → FilterType)
    (c : Cfg) (hw : c.WellFormed) (hsm : c.Small) (hp : c.PayloadsOk) (hs : c.SizesOk) (hne : ∀ x, compress x ≠ [])
    (hic : ∀ w h x, w ≤ c.width → h ≤ c.height → x.length = h * (1 + (rawRowLengthFromWidth c.color c.depth w - 1)) →
      realInflate (compress x) = some x)
    (steps : List Step) (fin : PFinal)
    (hdom : StreamDomain (scanCodec compress choose) (scanZ compress chooseZ) c steps fin)
    (hcount : (runProg (scanCodec compress choose) (scanZ compress chooseZ) c {} steps fin).declaredWritten)
    (hpass : ∀ op ∈ progOps steps, op.passOk) (hwire : ∀ op ∈ progOps steps, op.wireOk) :
    validPng (ofList (runProg (scanCodec compress choose) (scanZ compress chooseZ) c {} steps fin).state.sink.bytes) = .ok () :=
  scan_prog_validPng compress choose chooseZ c hw hsm hp hs hne hic steps fin hdom hcount hpass hwire

/-- … with the stored-block compressor: no compressor hypothesis left -/
theorem C12_stream_valid_stored_partial (choose chooseZ : Bytes → Bytes → FilterType)
    (c : Cfg) (hw : c.WellFormed) (hsm : c.Small) (hp : c.PayloadsOk) (hs : c.SizesOk)
    (hsmall : ∀ w h, w ≤ c.width → h ≤ c.height → h * (1 + (rawRowLengthFromWidth c.color c.depth w - 1)) ≤ 65535)
    (steps : List Step) (fin : PFinal)
    (hdom : StreamDomain (scanCodec storedZlib choose) (scanZ storedZlib chooseZ) c steps fin)
    (hcount : (runProg (scanCodec storedZlib choose) (scanZ storedZlib chooseZ) c {} steps fin).declaredWritten)
    (hpass : ∀ op ∈ progOps steps, op.passOk) (hwire : ∀ op ∈ progOps steps, op.wireOk) :
    validPng (ofList (runProg (scanCodec storedZlib choose) (scanZ storedZlib chooseZ) c {} steps fin).state.sink.bytes) = .ok () :=
  scan_prog_validPng storedZlib choose chooseZ c hw hsm hp hs (by intro x; simp [storedZlib])
    (fun w h x hw' hh hl => storedZlib_realInflate x (by rw [hl]; exact hsmall w h hw' hh))
    steps fin hdom hcount hpass hwire

/-! ## non-vacuity -/

/-- three frames on a 2×1 greyscale canvas, pHYs (typed encoder) and a tEXt chunk in the `Info` -/
def cfgExS : Cfg :=
  { animatedCfg { width := 2, height := 1, texts := [some ⟨tyTEXT, [75, 0, 118]⟩] } 3 0 with
    md := { phys := some (EncodeMeta.encodePhys ⟨1, 1, false⟩) } }
/-- frame 1 by `write_image_data`, a private chunk, frame 2 through a borrowed stream writer (requested chunk
    buffer 0 → 5 bytes, single-byte writes, a flush, frame setters afterwards), frame 3 through an owned stream
    writer with a 64-byte buffer, `finish` -/
def stepsExS : List Step :=
  [.op (.image [1, 2]), .op (.chunk tyPrVt [7]),
   .stream 0 [.write [5], .flush, .write [6], .set (.dim 1 1), .set (.pos 1 0)] .finish]
def finExS : PFinal := .intoStream 64 [.write [9, 9]] .finish

set_option maxRecDepth 100000 in
theorem exS_config : cfgExS.WellFormed ∧ cfgExS.Small ∧ cfgExS.PayloadsOk ∧ cfgExS.SizesOk ∧
    (∀ op ∈ progOps stepsExS, op.passOk) ∧ (∀ op ∈ progOps stepsExS, op.wireOk) := by decide
theorem exS_domain :
    StreamDomain (scanCodec storedZlib chooseNone) (scanZ storedZlib chooseNone) cfgExS stepsExS finExS ∧
    (runProg (scanCodec storedZlib chooseNone) (scanZ storedZlib chooseNone) cfgExS {} stepsExS finExS).declaredWritten := by
  decide +kernel
/-- the theorem applied: the bytes of this run are a valid APNG … -/
example : validPng (ofList (runProg (scanCodec storedZlib chooseNone) (scanZ storedZlib chooseNone) cfgExS {}
    stepsExS finExS).state.sink.bytes) = .ok () :=
  C12_stream_valid_stored_partial chooseNone chooseNone cfgExS exS_config.1 exS_config.2.1 exS_config.2.2.1
    exS_config.2.2.2.1
    (by
      intro w h hw hh
      have e : rawRowLengthFromWidth cfgExS.color cfgExS.depth w = 1 + w := by
        simp [rawRowLengthFromWidth, cfgExS, animatedCfg, samplesOf]
      rw [e]
      have : h * (1 + (1 + w - 1)) ≤ 1 * 3 :=
        Nat.mul_le_mul hh (by simp only [cfgExS, animatedCfg] at hw; omega)
      omega)
    stepsExS finExS exS_domain.1 exS_domain.2 exS_config.2.2.2.2.1 exS_config.2.2.2.2.2
/-- … and rules 2–6 of the executable validator (Lean inflater included) run by the kernel on the chunk list;
    the chunk sequence: the borrowed session's image in fdAT chunks of 5 bytes (sequence number + one byte) -/
example : validChunks realImgOk (runProg (scanCodec storedZlib chooseNone) (scanZ storedZlib chooseNone) cfgExS {}
      stepsExS finExS).state.sink.chunks = .ok () ∧
    (runProg (scanCodec storedZlib chooseNone) (scanZ storedZlib chooseNone) cfgExS {} stepsExS finExS).state.sink.chunks.map
      (fun c => (c.ty, c.data.length)) =
      [(tyIHDR, 13), (tyPHYS, 9), (tyACTL, 8), (tyTEXT, 3), (tyFCTL, 26), (tyIDAT, 14), (tyPrVt, 1), (tyFCTL, 26)] ++
      List.replicate 14 (tyFDAT, 5) ++ [(tyFCTL, 26), (tyFDAT, 18), (tyIEND, 0)] := by
  decide +kernel
/-- the chunk-level theorem with the toy back-ends on the program of `Props/C12.lean` that uses everything -/
example : validChunks (fun _ => anyImg) runMixed.state.sink.chunks = .ok () :=
  C12_stream_validChunks_partial (fun _ => anyImg) Enc.toyCodec toyZ cfgAnim4 runMixed_facts.1 runMixed_facts.2.1
    (by decide) ((Enc.toyCodec_ok _ _).okWithin _ _) ((toyZ_ok _ _).okWithin _ _) stepsMixed finMixed
    runMixed_facts.2.2.1 runMixed_facts.2.2.2.1 (by decide)

end Png.C12
