import PngVerif.Proofs.AnyPathBufBridge
import PngVerif.Props.C09AnyPath
/-!
# Any call path delivers the specification's image — for an ARBITRARY caller buffer

`Props/C09AnyPath.lean` (`C01_any_path`, `C09_any_path`, `C09_default_image_any_path`) composes the end-to-end decode
theorems with C13 for the fresh frame buffer `List.replicate (output_buffer_size) p`: the bridge used there goes through
the RESULTS of `Reader.run` on `Op.nextFrame p`, a buffer pre-filled with one byte.  This file removes the restriction:
`fresh` is ANY byte string of `output_buffer_size()` bytes (what the caller's buffer happens to contain before a frame is
begun).  The route is white-box: `Reader.frameInto_trace` (general in the buffer) re-composed frame by frame
(`Proofs/AnyPathBufFrames.lean`, `…Whole.lean`, `…Start.lean`: `WholeFrames`), then C13 (`asmRun_agrees`, general in
`fresh`) — `Proofs/AnyPathBufBridge.lean`.

Full generality: every valid header — all colour types and bit depths, both interlace methods.  For Adam7 images whose
rows end in padding bits (`width · bitsPerPixel` not a multiple of 8) the padding bits keep the contents of the caller's
buffer, exactly as `specPixels h raw fresh` / `specFrame … fresh` say (the second argument of `Adam7.deinterlace`); for
APNG frames smaller than the image the bytes behind the frame's `line_size × height` bytes keep the buffer's contents.

Hypotheses: those of `C01_any_path` / `C09_any_path` / `C09_default_image_any_path`, with `fresh.length = h.bufferSize` in
place of the pre-fill byte.  The `…_real` theorems are the instances at `Driver.realT` (no hypothesis on the row
transformation).
-/
namespace Png.AnyPath
open Png Png.Framing Png.Reader Png.WellFormed Png.Driver

/-! ## C01: still images -/

/-- the composition for a still image, from the property `AnyPathBufOk` of the transformation -/
theorem C01_any_path_any_buffer_of (cfg : Cfg) (t : TCfg) (hap : AnyPathBufOk cfg t) (f : Flags) (opts : Options) (limit : Nat)
    (h : Header) (anc : Bytes) (dA : Dec) (zs : List Bytes) (raw : Bytes) (post : List (ChunkType × Bytes)) (fresh : Bytes)
    (hI : cfg.InflateOk) (hC : cfg.CrcOk) (ht : t.IsIdentity f) (hv : h.Valid)
    (hanc : AncTrace cfg (afterIhdr cfg opts limit h) anc dA) (hidle : Idle dA h.info.core)
    (hstill : ∀ i, dA.info = some i → i.actl = none)
    (hzs : zs ≠ []) (hlen : ∀ z ∈ zs, z.length < 2 ^ 32) (hinf : cfg.inflate zs.flatten = some (raw, true))
    (hraw : RawOk h raw) (hpost : ∀ c ∈ post, c.1 ≠ IDAT ∧ c.1 < 2 ^ 32 ∧ c.2.length < 2 ^ 32)
    (hsize : h.lineSize * h.height < 2 ^ 64) (hlimit : h.lineSize ≤ dA.limit)
    (hfile : (signature ++ chunk cfg IHDR h.body ++ anc ++ idats cfg zs ++ chunks cfg post ++ chunk cfg IEND []).length < 2 ^ 32)
    (hfresh : fresh.length = h.bufferSize) (ops : List PathOp) :
    (asmRun cfg t fresh
      (readerOf cfg t opts limit f
        (signature ++ chunk cfg IHDR h.body ++ anc ++ idats cfg zs ++ chunks cfg post ++ chunk cfg IEND []),
       Asm.init fresh) ops).2.problem = false ∧
    ∀ k px, (k, px) ∈ (asmRun cfg t fresh
      (readerOf cfg t opts limit f
        (signature ++ chunk cfg IHDR h.body ++ anc ++ idats cfg zs ++ chunks cfg post ++ chunk cfg IEND []),
       Asm.init fresh) ops).2.frames →
      k = 0 ∧ specPixels h raw fresh = some px := by
  obtain ⟨r0, h0, hrem, hw⟩ := still_first cfg hI hC ht opts limit h hv anc dA hanc hidle hstill zs raw post hzs hlen hinf hraw
    hpost hsize hlimit
  generalize signature ++ chunk cfg IHDR h.body ++ anc ++ idats cfg zs ++ chunks cfg post ++ chunk cfg IEND [] = file at *
  have hr : readerOf cfg t opts limit f file = r0 := by unfold readerOf; rw [h0]
  rw [hr]
  obtain ⟨a, b⟩ := anyPath_of_wholeFrames cfg hap opts limit f file hfile r0 h.bufferSize _ fresh (by omega) h0
    (by rw [hrem]; rfl) hw ops
  refine ⟨a, fun k px hk => ?_⟩
  obtain ⟨d, hd, hspec⟩ := b k px hk
  obtain ⟨rfl, rfl⟩ := getElem?_singleton_some hd
  refine ⟨rfl, ?_⟩
  rw [← specFrame_eq_specPixels h raw fresh hfresh]
  exact hspec

/-- **C01 on any call path, any caller buffer.**  Under the hypotheses of `C01_any_path` (those of `Png.C01.C01_decode`:
    every inflater / CRC function with their contracts, every identity row transformation, every valid header — all
    colour types and bit depths, both interlace methods —, any chunks before the image data read as `AncTrace` / `Idle`
    demand, any cut of the zlib stream into `IDAT` chunks, any filter types, any chunks behind the image data, the two size
    checks; the contracts `t.Ok` / `t.SnapIndep` of C13; no `acTL` chunk; a file shorter than 4 GiB):

    for EVERY contents `fresh` of the caller's frame buffer (`output_buffer_size()` bytes) and EVERY list `ops` of calls
    (`next_frame`, `next_row` / `next_interlaced_row`, `read_row` with any sufficient buffer, `next_frame_info`) made from
    the reader `read_info` returns, the caller placing delivered rows into the frame buffer (`asmRun`): `problem = false`,
    and every completed frame has index 0 and is exactly `specPixels h raw fresh` — for Adam7 images with sub-byte pixels
    the padding bits at the end of each row keep the bits `fresh` had there. -/
theorem C01_any_path_any_buffer (cfg : Cfg) (t : TCfg) (f : Flags) (opts : Options) (limit : Nat) (h : Header) (anc : Bytes)
    (dA : Dec) (zs : List Bytes) (raw : Bytes) (post : List (ChunkType × Bytes)) (fresh : Bytes)
    (hI : cfg.InflateOk) (hC : cfg.CrcOk) (ht : t.IsIdentity f) (hok : t.Ok) (hsi : t.SnapIndep) (hv : h.Valid)
    (hanc : AncTrace cfg (afterIhdr cfg opts limit h) anc dA) (hidle : Idle dA h.info.core)
    (hstill : ∀ i, dA.info = some i → i.actl = none)
    (hzs : zs ≠ []) (hlen : ∀ z ∈ zs, z.length < 2 ^ 32) (hinf : cfg.inflate zs.flatten = some (raw, true))
    (hraw : RawOk h raw) (hpost : ∀ c ∈ post, c.1 ≠ IDAT ∧ c.1 < 2 ^ 32 ∧ c.2.length < 2 ^ 32)
    (hsize : h.lineSize * h.height < 2 ^ 64) (hlimit : h.lineSize ≤ dA.limit)
    (hfile : (signature ++ chunk cfg IHDR h.body ++ anc ++ idats cfg zs ++ chunks cfg post ++ chunk cfg IEND []).length < 2 ^ 32)
    (hfresh : fresh.length = h.bufferSize) (ops : List PathOp) :
    (asmRun cfg t fresh
      (readerOf cfg t opts limit f
        (signature ++ chunk cfg IHDR h.body ++ anc ++ idats cfg zs ++ chunks cfg post ++ chunk cfg IEND []),
       Asm.init fresh) ops).2.problem = false ∧
    ∀ k px, (k, px) ∈ (asmRun cfg t fresh
      (readerOf cfg t opts limit f
        (signature ++ chunk cfg IHDR h.body ++ anc ++ idats cfg zs ++ chunks cfg post ++ chunk cfg IEND []),
       Asm.init fresh) ops).2.frames →
      k = 0 ∧ specPixels h raw fresh = some px :=
  C01_any_path_any_buffer_of cfg t (anyPathBufOk_of_contracts cfg hok hsi) f opts limit h anc dA zs raw post fresh hI hC ht hv
    hanc hidle hstill hzs hlen hinf hraw hpost hsize hlimit hfile hfresh ops

/-- **… for the transformation the executable model runs** (`Driver.realT` with `Transformations::IDENTITY`): no
    hypothesis on the transformation is left -/
theorem C01_any_path_any_buffer_real (cfg : Cfg) (opts : Options) (limit : Nat) (h : Header) (anc : Bytes) (dA : Dec)
    (zs : List Bytes) (raw : Bytes) (post : List (ChunkType × Bytes)) (fresh : Bytes)
    (hI : cfg.InflateOk) (hC : cfg.CrcOk) (hv : h.Valid)
    (hanc : AncTrace cfg (afterIhdr cfg opts limit h) anc dA) (hidle : Idle dA h.info.core)
    (hstill : ∀ i, dA.info = some i → i.actl = none)
    (hzs : zs ≠ []) (hlen : ∀ z ∈ zs, z.length < 2 ^ 32) (hinf : cfg.inflate zs.flatten = some (raw, true))
    (hraw : RawOk h raw) (hpost : ∀ c ∈ post, c.1 ≠ IDAT ∧ c.1 < 2 ^ 32 ∧ c.2.length < 2 ^ 32)
    (hsize : h.lineSize * h.height < 2 ^ 64) (hlimit : h.lineSize ≤ dA.limit)
    (hfile : (signature ++ chunk cfg IHDR h.body ++ anc ++ idats cfg zs ++ chunks cfg post ++ chunk cfg IEND []).length < 2 ^ 32)
    (hfresh : fresh.length = h.bufferSize) (ops : List PathOp) :
    (asmRun cfg realT fresh
      (readerOf cfg realT opts limit {}
        (signature ++ chunk cfg IHDR h.body ++ anc ++ idats cfg zs ++ chunks cfg post ++ chunk cfg IEND []),
       Asm.init fresh) ops).2.problem = false ∧
    ∀ k px, (k, px) ∈ (asmRun cfg realT fresh
      (readerOf cfg realT opts limit {}
        (signature ++ chunk cfg IHDR h.body ++ anc ++ idats cfg zs ++ chunks cfg post ++ chunk cfg IEND []),
       Asm.init fresh) ops).2.frames →
      k = 0 ∧ specPixels h raw fresh = some px :=
  C01_any_path_any_buffer_of cfg realT (anyPathBufOk_real cfg) {} opts limit h anc dA zs raw post fresh hI hC realT_isIdentity
    hv hanc hidle hstill hzs hlen hinf hraw hpost hsize hlimit hfile hfresh ops

/-! ## C09: animated images -/

/-- the composition for an animation whose first frame is the `IDAT` image, from `AnyPathBufOk` -/
theorem C09_any_path_any_buffer_of (cfg : Cfg) (t : TCfg) (hap : AnyPathBufOk cfg t) (f : Flags) (opts : Options) (limit : Nat)
    (h : Header) (plays : Nat) (anc : List (ChunkType × Bytes)) (dAnc : Dec)
    (frames : List (FrameControl × List Bytes × Bytes)) (fc0 : FrameControl) (zs0 : List Bytes) (raw0 : Bytes) (fresh : Bytes)
    (hI : cfg.InflateOk) (hC : cfg.CrcOk) (ht : t.IsIdentity f) (hv : h.Valid)
    (hpl : plays < 2 ^ 32) (hnf : frames.length + 1 < 2 ^ 32)
    (hanc : AncChunksG cfg (actlAfter (afterIhdr cfg opts limit h) (frames.length + 1) plays) anc dAnc) (hna : NoActl anc)
    (hfc0 : FcOk h fc0) (hzs0 : zs0 ≠ []) (hlen0 : ∀ z ∈ zs0, z.length < 2 ^ 32)
    (hinf0 : cfg.inflate zs0.flatten = some (raw0, true)) (hraw0 : RawOk (h.frame fc0) raw0)
    (hframes : ∀ fr ∈ frames, FrameOk cfg h fr)
    (hseq : 1 + (frames.map fun x => 1 + x.2.1.length).sum < 2 ^ 32)
    (hsize : h.lineSize * h.height < 2 ^ 64)
    (hlimit : (h.frame fc0).lineSize + (frames.map fun x => (h.frame x.1).lineSize).sum ≤ dAnc.limit)
    (hfile : (wellFormedApng cfg h plays anc fc0 zs0 (framesOf frames)).length < 2 ^ 32)
    (hfresh : fresh.length = h.bufferSize) (ops : List PathOp) :
    (asmRun cfg t fresh
      (readerOf cfg t opts limit f (wellFormedApng cfg h plays anc fc0 zs0 (framesOf frames)), Asm.init fresh) ops).2.problem
        = false ∧
    ∀ k px, (k, px) ∈ (asmRun cfg t fresh
      (readerOf cfg t opts limit f (wellFormedApng cfg h plays anc fc0 zs0 (framesOf frames)), Asm.init fresh) ops).2.frames →
      ∃ fr : FrameControl × List Bytes × Bytes, ((fc0, zs0, raw0) :: frames)[k]? = some fr ∧
        specFrame (h.frame fr.1) fr.2.2 fresh = some px := by
  obtain ⟨r0, h0, hrem, hw⟩ := apng_first cfg hI hC ht opts limit h hv plays hpl anc dAnc frames hnf hanc hna fc0 zs0 raw0
    hfc0 hzs0 hlen0 hinf0 hraw0 hframes hseq hsize hlimit
  generalize wellFormedApng cfg h plays anc fc0 zs0 (framesOf frames) = file at *
  have hr : readerOf cfg t opts limit f file = r0 := by unfold readerOf; rw [h0]
  rw [hr]
  obtain ⟨a, b⟩ := anyPath_of_wholeFrames cfg hap opts limit f file hfile r0 h.bufferSize _ fresh (by omega) h0
    (by rw [hrem]; simp) hw ops
  refine ⟨a, fun k px hk => ?_⟩
  obtain ⟨d, hd, hspec⟩ := b k px hk
  obtain ⟨fr, hfr, e1, e2⟩ := descOf_getElem? h ((fc0, zs0, raw0) :: frames) k d hd
  exact ⟨fr, hfr, by rw [← e1, ← e2]; exact hspec⟩

/-- **C09 on any call path, any caller buffer.**  Under the hypotheses of `C09_any_path` (those of
    `Png.C09.C09_frames`, the contracts `t.Ok` / `t.SnapIndep` of C13, a file shorter than 4 GiB): for EVERY contents
    `fresh` of the frame buffer the caller begins each frame with (`output_buffer_size()` bytes) and EVERY list `ops` of
    calls — rows of some frames, whole other frames, frames skipped before or after some of their rows —,
    `problem = false`, and every frame the caller completes, recorded with index `k`, is `specFrame` of frame `k`'s OWN
    data with the size of its OWN `fcTL`, computed on `fresh`: the frame's `line_size × height` bytes from the start of
    the buffer (for Adam7 sub-byte pixels the padding bits keep `fresh`'s bits), the rest of the buffer keeps `fresh`. -/
theorem C09_any_path_any_buffer (cfg : Cfg) (t : TCfg) (f : Flags) (opts : Options) (limit : Nat) (h : Header)
    (plays : Nat) (anc : List (ChunkType × Bytes)) (dAnc : Dec) (frames : List (FrameControl × List Bytes × Bytes))
    (fc0 : FrameControl) (zs0 : List Bytes) (raw0 : Bytes) (fresh : Bytes)
    (hI : cfg.InflateOk) (hC : cfg.CrcOk) (ht : t.IsIdentity f) (hok : t.Ok) (hsi : t.SnapIndep) (hv : h.Valid)
    (hpl : plays < 2 ^ 32) (hnf : frames.length + 1 < 2 ^ 32)
    (hanc : AncChunksG cfg (actlAfter (afterIhdr cfg opts limit h) (frames.length + 1) plays) anc dAnc) (hna : NoActl anc)
    (hfc0 : FcOk h fc0) (hzs0 : zs0 ≠ []) (hlen0 : ∀ z ∈ zs0, z.length < 2 ^ 32)
    (hinf0 : cfg.inflate zs0.flatten = some (raw0, true)) (hraw0 : RawOk (h.frame fc0) raw0)
    (hframes : ∀ fr ∈ frames, FrameOk cfg h fr)
    (hseq : 1 + (frames.map fun x => 1 + x.2.1.length).sum < 2 ^ 32)
    (hsize : h.lineSize * h.height < 2 ^ 64)
    (hlimit : (h.frame fc0).lineSize + (frames.map fun x => (h.frame x.1).lineSize).sum ≤ dAnc.limit)
    (hfile : (wellFormedApng cfg h plays anc fc0 zs0 (framesOf frames)).length < 2 ^ 32)
    (hfresh : fresh.length = h.bufferSize) (ops : List PathOp) :
    (asmRun cfg t fresh
      (readerOf cfg t opts limit f (wellFormedApng cfg h plays anc fc0 zs0 (framesOf frames)), Asm.init fresh) ops).2.problem
        = false ∧
    ∀ k px, (k, px) ∈ (asmRun cfg t fresh
      (readerOf cfg t opts limit f (wellFormedApng cfg h plays anc fc0 zs0 (framesOf frames)), Asm.init fresh) ops).2.frames →
      ∃ fr : FrameControl × List Bytes × Bytes, ((fc0, zs0, raw0) :: frames)[k]? = some fr ∧
        specFrame (h.frame fr.1) fr.2.2 fresh = some px :=
  C09_any_path_any_buffer_of cfg t (anyPathBufOk_of_contracts cfg hok hsi) f opts limit h plays anc dAnc frames fc0 zs0 raw0
    fresh hI hC ht hv hpl hnf hanc hna hfc0 hzs0 hlen0 hinf0 hraw0 hframes hseq hsize hlimit hfile hfresh ops

/-- **… for the transformation the executable model runs** (no transformation flags) -/
theorem C09_any_path_any_buffer_real (cfg : Cfg) (opts : Options) (limit : Nat) (h : Header)
    (plays : Nat) (anc : List (ChunkType × Bytes)) (dAnc : Dec) (frames : List (FrameControl × List Bytes × Bytes))
    (fc0 : FrameControl) (zs0 : List Bytes) (raw0 : Bytes) (fresh : Bytes)
    (hI : cfg.InflateOk) (hC : cfg.CrcOk) (hv : h.Valid)
    (hpl : plays < 2 ^ 32) (hnf : frames.length + 1 < 2 ^ 32)
    (hanc : AncChunksG cfg (actlAfter (afterIhdr cfg opts limit h) (frames.length + 1) plays) anc dAnc) (hna : NoActl anc)
    (hfc0 : FcOk h fc0) (hzs0 : zs0 ≠ []) (hlen0 : ∀ z ∈ zs0, z.length < 2 ^ 32)
    (hinf0 : cfg.inflate zs0.flatten = some (raw0, true)) (hraw0 : RawOk (h.frame fc0) raw0)
    (hframes : ∀ fr ∈ frames, FrameOk cfg h fr)
    (hseq : 1 + (frames.map fun x => 1 + x.2.1.length).sum < 2 ^ 32)
    (hsize : h.lineSize * h.height < 2 ^ 64)
    (hlimit : (h.frame fc0).lineSize + (frames.map fun x => (h.frame x.1).lineSize).sum ≤ dAnc.limit)
    (hfile : (wellFormedApng cfg h plays anc fc0 zs0 (framesOf frames)).length < 2 ^ 32)
    (hfresh : fresh.length = h.bufferSize) (ops : List PathOp) :
    (asmRun cfg realT fresh
      (readerOf cfg realT opts limit {} (wellFormedApng cfg h plays anc fc0 zs0 (framesOf frames)), Asm.init fresh) ops).2.problem
        = false ∧
    ∀ k px, (k, px) ∈ (asmRun cfg realT fresh
      (readerOf cfg realT opts limit {} (wellFormedApng cfg h plays anc fc0 zs0 (framesOf frames)), Asm.init fresh) ops).2.frames →
      ∃ fr : FrameControl × List Bytes × Bytes, ((fc0, zs0, raw0) :: frames)[k]? = some fr ∧
        specFrame (h.frame fr.1) fr.2.2 fresh = some px :=
  C09_any_path_any_buffer_of cfg realT (anyPathBufOk_real cfg) {} opts limit h plays anc dAnc frames fc0 zs0 raw0 fresh hI hC
    realT_isIdentity hv hpl hnf hanc hna hfc0 hzs0 hlen0 hinf0 hraw0 hframes hseq hsize hlimit hfile hfresh ops

/-- the composition for an animation whose `IDAT` image is not part of the animation, from `AnyPathBufOk` -/
theorem C09_default_image_any_path_any_buffer_of (cfg : Cfg) (t : TCfg) (hap : AnyPathBufOk cfg t) (f : Flags) (opts : Options)
    (limit : Nat) (h : Header) (plays : Nat) (anc : List (ChunkType × Bytes)) (dAnc : Dec)
    (frames : List (FrameControl × List Bytes × Bytes)) (zs0 : List Bytes) (raw0 : Bytes) (fresh : Bytes)
    (hI : cfg.InflateOk) (hC : cfg.CrcOk) (ht : t.IsIdentity f) (hv : h.Valid)
    (hpl : plays < 2 ^ 32) (hnf : frames.length < 2 ^ 32)
    (hanc : AncChunksG cfg (actlAfter (afterIhdr cfg opts limit h) frames.length plays) anc dAnc) (hna : NoActl anc)
    (hzs0 : zs0 ≠ []) (hlen0 : ∀ z ∈ zs0, z.length < 2 ^ 32)
    (hinf0 : cfg.inflate zs0.flatten = some (raw0, true)) (hraw0 : RawOk h raw0)
    (hframes : ∀ fr ∈ frames, FrameOk cfg h fr)
    (hseq : (frames.map fun x => 1 + x.2.1.length).sum < 2 ^ 32)
    (hsize : h.lineSize * h.height < 2 ^ 64)
    (hlimit : h.lineSize + (frames.map fun x => (h.frame x.1).lineSize).sum ≤ dAnc.limit)
    (hfile : (wellFormedApngDefault cfg h plays anc zs0 (framesOf frames)).length < 2 ^ 32)
    (hfresh : fresh.length = h.bufferSize) (ops : List PathOp) :
    (asmRun cfg t fresh
      (readerOf cfg t opts limit f (wellFormedApngDefault cfg h plays anc zs0 (framesOf frames)), Asm.init fresh) ops).2.problem
        = false ∧
    ∀ k px, (k, px) ∈ (asmRun cfg t fresh
      (readerOf cfg t opts limit f (wellFormedApngDefault cfg h plays anc zs0 (framesOf frames)), Asm.init fresh) ops).2.frames →
      (k = 0 → specPixels h raw0 fresh = some px) ∧
      (∀ j, k = j + 1 → ∃ fr : FrameControl × List Bytes × Bytes, frames[j]? = some fr ∧
        specFrame (h.frame fr.1) fr.2.2 fresh = some px) := by
  obtain ⟨r0, h0, hrem, hw⟩ := apng_default_first cfg hI hC ht opts limit h hv plays hpl anc dAnc frames hnf hanc hna zs0 raw0
    hzs0 hlen0 hinf0 hraw0 hframes hseq hsize hlimit
  generalize wellFormedApngDefault cfg h plays anc zs0 (framesOf frames) = file at *
  have hr : readerOf cfg t opts limit f file = r0 := by unfold readerOf; rw [h0]
  rw [hr]
  obtain ⟨a, b⟩ := anyPath_of_wholeFrames cfg hap opts limit f file hfile r0 h.bufferSize _ fresh (by omega) h0
    (by rw [hrem]; simp) hw ops
  refine ⟨a, fun k px hk => ?_⟩
  obtain ⟨d, hd, hspec⟩ := b k px hk
  cases k with
  | zero =>
    simp only [List.getElem?_cons_zero, Option.some.injEq] at hd
    subst hd
    refine ⟨fun _ => ?_, fun j hj => by omega⟩
    rw [← specFrame_eq_specPixels h raw0 fresh hfresh]
    exact hspec
  | succ k =>
    simp only [List.getElem?_cons_succ] at hd
    refine ⟨fun hk0 => by omega, fun j hj => ?_⟩
    have : k = j := by omega
    subst this
    obtain ⟨fr, hfr, e1, e2⟩ := descOf_getElem? h frames k d hd
    exact ⟨fr, hfr, by rw [← e1, ← e2]; exact hspec⟩

/-- **C09 on any call path, any caller buffer, the `IDAT` image not being part of the animation** (hypotheses of
    `C09_default_image_any_path`): a completed frame with index 0 is the `IDAT` image exactly as C01 states it
    (`specPixels h raw0 fresh`), a completed frame with index `j + 1` is `specFrame` of the `j`-th `fcTL` / `fdAT` frame's
    own data computed on `fresh` -/
theorem C09_default_image_any_path_any_buffer (cfg : Cfg) (t : TCfg) (f : Flags) (opts : Options) (limit : Nat)
    (h : Header) (plays : Nat) (anc : List (ChunkType × Bytes)) (dAnc : Dec)
    (frames : List (FrameControl × List Bytes × Bytes)) (zs0 : List Bytes) (raw0 : Bytes) (fresh : Bytes)
    (hI : cfg.InflateOk) (hC : cfg.CrcOk) (ht : t.IsIdentity f) (hok : t.Ok) (hsi : t.SnapIndep) (hv : h.Valid)
    (hpl : plays < 2 ^ 32) (hnf : frames.length < 2 ^ 32)
    (hanc : AncChunksG cfg (actlAfter (afterIhdr cfg opts limit h) frames.length plays) anc dAnc) (hna : NoActl anc)
    (hzs0 : zs0 ≠ []) (hlen0 : ∀ z ∈ zs0, z.length < 2 ^ 32)
    (hinf0 : cfg.inflate zs0.flatten = some (raw0, true)) (hraw0 : RawOk h raw0)
    (hframes : ∀ fr ∈ frames, FrameOk cfg h fr)
    (hseq : (frames.map fun x => 1 + x.2.1.length).sum < 2 ^ 32)
    (hsize : h.lineSize * h.height < 2 ^ 64)
    (hlimit : h.lineSize + (frames.map fun x => (h.frame x.1).lineSize).sum ≤ dAnc.limit)
    (hfile : (wellFormedApngDefault cfg h plays anc zs0 (framesOf frames)).length < 2 ^ 32)
    (hfresh : fresh.length = h.bufferSize) (ops : List PathOp) :
    (asmRun cfg t fresh
      (readerOf cfg t opts limit f (wellFormedApngDefault cfg h plays anc zs0 (framesOf frames)), Asm.init fresh) ops).2.problem
        = false ∧
    ∀ k px, (k, px) ∈ (asmRun cfg t fresh
      (readerOf cfg t opts limit f (wellFormedApngDefault cfg h plays anc zs0 (framesOf frames)), Asm.init fresh) ops).2.frames →
      (k = 0 → specPixels h raw0 fresh = some px) ∧
      (∀ j, k = j + 1 → ∃ fr : FrameControl × List Bytes × Bytes, frames[j]? = some fr ∧
        specFrame (h.frame fr.1) fr.2.2 fresh = some px) :=
  C09_default_image_any_path_any_buffer_of cfg t (anyPathBufOk_of_contracts cfg hok hsi) f opts limit h plays anc dAnc frames
    zs0 raw0 fresh hI hC ht hv hpl hnf hanc hna hzs0 hlen0 hinf0 hraw0 hframes hseq hsize hlimit hfile hfresh ops

/-- … for the transformation the executable model runs (no transformation flags) -/
theorem C09_default_image_any_path_any_buffer_real (cfg : Cfg) (opts : Options) (limit : Nat)
    (h : Header) (plays : Nat) (anc : List (ChunkType × Bytes)) (dAnc : Dec)
    (frames : List (FrameControl × List Bytes × Bytes)) (zs0 : List Bytes) (raw0 : Bytes) (fresh : Bytes)
    (hI : cfg.InflateOk) (hC : cfg.CrcOk) (hv : h.Valid)
    (hpl : plays < 2 ^ 32) (hnf : frames.length < 2 ^ 32)
    (hanc : AncChunksG cfg (actlAfter (afterIhdr cfg opts limit h) frames.length plays) anc dAnc) (hna : NoActl anc)
    (hzs0 : zs0 ≠ []) (hlen0 : ∀ z ∈ zs0, z.length < 2 ^ 32)
    (hinf0 : cfg.inflate zs0.flatten = some (raw0, true)) (hraw0 : RawOk h raw0)
    (hframes : ∀ fr ∈ frames, FrameOk cfg h fr)
    (hseq : (frames.map fun x => 1 + x.2.1.length).sum < 2 ^ 32)
    (hsize : h.lineSize * h.height < 2 ^ 64)
    (hlimit : h.lineSize + (frames.map fun x => (h.frame x.1).lineSize).sum ≤ dAnc.limit)
    (hfile : (wellFormedApngDefault cfg h plays anc zs0 (framesOf frames)).length < 2 ^ 32)
    (hfresh : fresh.length = h.bufferSize) (ops : List PathOp) :
    (asmRun cfg realT fresh
      (readerOf cfg realT opts limit {} (wellFormedApngDefault cfg h plays anc zs0 (framesOf frames)), Asm.init fresh)
        ops).2.problem = false ∧
    ∀ k px, (k, px) ∈ (asmRun cfg realT fresh
      (readerOf cfg realT opts limit {} (wellFormedApngDefault cfg h plays anc zs0 (framesOf frames)), Asm.init fresh)
        ops).2.frames →
      (k = 0 → specPixels h raw0 fresh = some px) ∧
      (∀ j, k = j + 1 → ∃ fr : FrameControl × List Bytes × Bytes, frames[j]? = some fr ∧
        specFrame (h.frame fr.1) fr.2.2 fresh = some px) :=
  C09_default_image_any_path_any_buffer_of cfg realT (anyPathBufOk_real cfg) {} opts limit h plays anc dAnc frames zs0 raw0
    fresh hI hC realT_isIdentity hv hpl hnf hanc hna hzs0 hlen0 hinf0 hraw0 hframes hseq hsize hlimit hfile hfresh ops

/-! ## The theorems of `Props/C09AnyPath.lean` are the instances `fresh = List.replicate h.bufferSize p` -/

/-- `C01_any_path` from `C01_any_path_any_buffer` -/
example (cfg : Cfg) (t : TCfg) (f : Flags) (opts : Options) (limit : Nat) (h : Header) (anc : Bytes) (dA : Dec)
    (zs : List Bytes) (raw : Bytes) (post : List (ChunkType × Bytes)) (p : UInt8)
    (hI : cfg.InflateOk) (hC : cfg.CrcOk) (ht : t.IsIdentity f) (hok : t.Ok) (hsi : t.SnapIndep) (hv : h.Valid)
    (hanc : AncTrace cfg (afterIhdr cfg opts limit h) anc dA) (hidle : Idle dA h.info.core)
    (hstill : ∀ i, dA.info = some i → i.actl = none)
    (hzs : zs ≠ []) (hlen : ∀ z ∈ zs, z.length < 2 ^ 32) (hinf : cfg.inflate zs.flatten = some (raw, true))
    (hraw : RawOk h raw) (hpost : ∀ c ∈ post, c.1 ≠ IDAT ∧ c.1 < 2 ^ 32 ∧ c.2.length < 2 ^ 32)
    (hsize : h.lineSize * h.height < 2 ^ 64) (hlimit : h.lineSize ≤ dA.limit)
    (hfile : (signature ++ chunk cfg IHDR h.body ++ anc ++ idats cfg zs ++ chunks cfg post ++ chunk cfg IEND []).length < 2 ^ 32)
    (ops : List PathOp) :=
  C01_any_path_any_buffer cfg t f opts limit h anc dA zs raw post (List.replicate h.bufferSize p) hI hC ht hok hsi hv hanc hidle
    hstill hzs hlen hinf hraw hpost hsize hlimit hfile (by simp) ops

/-! ## Non-vacuity: the theorems instantiated on concrete files with buffers that are NOT constant -/

section Examples
open Png.Framing.Toy Png.Reader.Toy Png.Reader.PathsToy

/-- `C01_any_path_any_buffer` applies to the interlaced 2×2 image of `Props/C01Decode.lean` with the caller's buffer
    holding `[1, 2, 3, 4]`: every hypothesis holds -/
example (ops : List PathOp) :=
  C01_any_path_any_buffer toyCfg idT {} {} (2 ^ 64 - 1) C01.hGray2i [] (afterIhdr toyCfg {} (2 ^ 64 - 1) C01.hGray2i) C01.zs2
    C01.raw2 [] [1, 2, 3, 4]
    toy_inflateOk C01.toy_crcOk C01.idT_isIdentity idT_ok idT_snapIndep (by decide) (AncTrace.nil _ _) (idle_afterIhdr _ _ _ _)
    (fun i hi => by cases hi; rfl) (by decide) (by decide) (by decide) (by decide) (fun _ hc => by cases hc) (by decide)
    (by decide) (by decide +kernel) (by decide) ops

/-- … and to the 3×2 two-bit Adam7 image whose rows end in padding bits, the caller's buffer holding `[0xA5, 0x5A]`: the
    two padding bits of each row keep the buffer's bits (`01` of `0xA5`, `10` of `0x5A`) -/
example (ops : List PathOp) :=
  C01_any_path_any_buffer toyCfg idT {} {} (2 ^ 64 - 1) C01.hPal3i [] (afterIhdr toyCfg {} (2 ^ 64 - 1) C01.hPal3i) C01.zs3
    C01.raw3 [] [0xA5, 0x5A]
    toy_inflateOk C01.toy_crcOk C01.idT_isIdentity idT_ok idT_snapIndep (by decide) (AncTrace.nil _ _) (idle_afterIhdr _ _ _ _)
    (fun i hi => by cases hi; rfl) (by decide) (by decide) (by decide) (by decide) (fun _ hc => by cases hc) (by decide)
    (by decide) (by decide +kernel) (by decide) ops

example : specPixels C01.hPal3i C01.raw3 [0xA5, 0x5A] = some [0x6D, 0x6E] ∧
    specPixels C01.hPal3i C01.raw3 (List.replicate 2 0xFF) = some [0x6F, 0x6F] := by decide

/-- concrete runs with these buffers: rows only; rows, then the whole-frame call -/
example : (asmRun toyCfg idT [0xA5, 0x5A]
    (readerOf toyCfg idT {} (2 ^ 64 - 1) {} (wellFormedStill toyCfg C01.hPal3i [] C01.zs3 []), Asm.init [0xA5, 0x5A])
    [.nextRow, .nextRow, .nextFrame]).2.frames = [(0, [0x6D, 0x6E])] := by decide +kernel
example : (asmRun toyCfg idT [1, 2, 3, 4]
    (readerOf toyCfg idT {} (2 ^ 64 - 1) {} (wellFormedStill toyCfg C01.hGray2i [] C01.zs2 []), Asm.init [1, 2, 3, 4])
    [.readRow 0, .nextFrame, .nextFrameInfo, .nextFrame]).2.frames = [(0, [10, 20, 30, 35])] := by decide +kernel

/-- the same for the executable model's transformation -/
example (ops : List PathOp) :=
  C01_any_path_any_buffer_real toyCfg {} (2 ^ 64 - 1) C01.hPal3i [] (afterIhdr toyCfg {} (2 ^ 64 - 1) C01.hPal3i) C01.zs3
    C01.raw3 [] [0xA5, 0x5A]
    toy_inflateOk C01.toy_crcOk (by decide) (AncTrace.nil _ _) (idle_afterIhdr _ _ _ _)
    (fun i hi => by cases hi; rfl) (by decide) (by decide) (by decide) (by decide) (fun _ hc => by cases hc) (by decide)
    (by decide) (by decide +kernel) (by decide) ops

/-- `C09_any_path_any_buffer` applies to the two-frame animation `apng2` of `Props/C09.lean` (2×2 image; the second frame
    is the single pixel at (1, 1)) with the caller's buffer holding `[11, 12, 13, 14]` -/
example (ops : List PathOp) :=
  C09_any_path_any_buffer toyCfg idT {} {} (2 ^ 64 - 1) C09.hGray2 0 [] _ C09.framesToy C09.fcFull [[6, 0, 1, 2, 0, 3, 4]]
    [0, 1, 2, 0, 3, 4] [11, 12, 13, 14] toy_inflateOk C01.toy_crcOk C01.idT_isIdentity idT_ok idT_snapIndep (by decide)
    (by decide) (by decide)
    (.nil _) (fun _ hc => by cases hc) fcFull_ok (by decide) (by decide) (by decide) (by decide) framesToy_ok (by decide)
    (by decide) (by decide +kernel) (by decide +kernel) (by decide) ops

/-- … and `C09_default_image_any_path_any_buffer` to `apng3` (the same frames behind a default image) -/
example (ops : List PathOp) :=
  C09_default_image_any_path_any_buffer toyCfg idT {} {} (2 ^ 64 - 1) C09.hGray2 0 [] _ C09.framesToy [[6, 0, 1, 2, 0, 3, 4]]
    [0, 1, 2, 0, 3, 4] [11, 12, 13, 14] toy_inflateOk C01.toy_crcOk C01.idT_isIdentity idT_ok idT_snapIndep (by decide)
    (by decide) (by decide)
    (.nil _) (fun _ hc => by cases hc) (by decide) (by decide) (by decide) (by decide) framesToy_ok (by decide)
    (by decide) (by decide +kernel) (by decide +kernel) (by decide) ops

/-- concrete runs on `apng2` with that buffer: frame 1 is its one byte at the start of the buffer, the other three bytes
    keep the caller's `12, 13, 14` -/
example : (asmRun toyCfg idT [11, 12, 13, 14]
    (readerOf toyCfg idT {} (2 ^ 64 - 1) {} C09.apng2, Asm.init [11, 12, 13, 14])
    [.nextRow, .nextFrame, .nextFrameInfo, .nextRow, .nextRow]).2.frames = [(1, [9, 12, 13, 14]), (0, [1, 2, 3, 4])] := by
  decide +kernel
example : specFrame (C09.hGray2.frame C09.fcSub) [0, 9] [11, 12, 13, 14] = some [9, 12, 13, 14] := by decide

end Examples

end Png.AnyPath
