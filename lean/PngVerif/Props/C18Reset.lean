import PngVerif.Proofs.FramingLogic
import PngVerif.Proofs.FramingToy
/-!
# C18 (second sentence) — `StreamingDecoder::reset` gives a decoder that decodes like a new one

Property theorems only, about `Dec.reset` / `Dec.new` of `Model/Framing.lean` (`stream.rs:572-597`).
`reset` restores EVERY field of the decoder except: the options (kept on purpose), the remaining
`Limits` budget, the capacity of the chunk buffer (an allocation that is kept), and the caller's
`image_data` vector (`out`, which is not part of the decoder at all).  Hence a reset decoder and a new
decoder with the same options, budget and buffer capacity behave identically on every input — for
`update`, `feed` and `run`, errors and poisoning included.

(On the pinned tree `reset` left `ready_for_idat_chunks`, `ready_for_fdat_chunks`, `have_iccp` and the
current chunk type stale — defect D6, repaired since; the model mirrors the repaired code, and
`reset_is_new` would be false for the old one.)
-/
namespace Png.C18
open Png Png.Framing

/-- **`reset` is `new`** up to options, remaining budget, chunk-buffer capacity and the caller's output vector -/
theorem reset_is_new (d : Dec) :
    Dec.reset d = { Dec.new d.opts with limit := d.limit, cap := d.cap, out := d.out } := rfl

/-- with the budget untouched, the buffer never grown and an empty output vector, `reset` IS `new` -/
theorem reset_eq_new (d : Dec) (hl : d.limit = (Dec.new d.opts).limit) (hc : d.cap = Params.chunkBufferSize)
    (ho : d.out = []) : Dec.reset d = Dec.new d.opts := by
  rw [reset_is_new, hl, hc, ho]; rfl

/-- `reset` makes a poisoned or finished decoder usable again, in the initial state -/
theorem reset_unpoisons (d : Dec) : (Dec.reset d).state = some (.u32 .sig1 []) ∧ rank (Dec.reset d) = 0 := ⟨rfl, rfl⟩

/-- what `reset` keeps -/
theorem reset_keeps (d : Dec) :
    (Dec.reset d).opts = d.opts ∧ (Dec.reset d).limit = d.limit ∧ (Dec.reset d).cap = d.cap ∧ (Dec.reset d).out = d.out :=
  ⟨rfl, rfl, rfl, rfl⟩

/-- **A reset decoder decodes any stream exactly as a new one** (same options, budget, buffer capacity, output
    vector): every `update` call, the caller loop `feed`, and the caller-level semantics `run` give equal
    results — events, errors, final decoder. -/
theorem reset_decodes_like_new (cfg : Cfg) (d : Dec) (buf : Bytes) (f : Nat) (evs : List Ev) :
    update cfg (Dec.reset d) buf = update cfg { Dec.new d.opts with limit := d.limit, cap := d.cap, out := d.out } buf ∧
    feed cfg f (Dec.reset d) buf evs =
      feed cfg f { Dec.new d.opts with limit := d.limit, cap := d.cap, out := d.out } buf evs ∧
    run cfg f (Dec.reset d) buf = run cfg f { Dec.new d.opts with limit := d.limit, cap := d.cap, out := d.out } buf ∧
    runF cfg (Dec.reset d) buf = runF cfg { Dec.new d.opts with limit := d.limit, cap := d.cap, out := d.out } buf := by
  rw [reset_is_new]; exact ⟨rfl, rfl, rfl, rfl⟩

/-- the history before the `reset` is irrelevant: two decoders with the same options, budget, buffer
    capacity and output vector are equal after `reset`, whatever else they went through -/
theorem reset_forgets_history (d1 d2 : Dec) (ho : d1.opts = d2.opts) (hl : d1.limit = d2.limit) (hc : d1.cap = d2.cap)
    (hout : d1.out = d2.out) : Dec.reset d1 = Dec.reset d2 := by
  rw [reset_is_new, reset_is_new, ho, hl, hc, hout]

/-! ## non-vacuity -/
section examples
open Png.Framing.Toy

/-- decode a stream that fails, `reset`, decode a valid stream: same events as a new decoder, no error; and
    after a complete valid stream (decoder finished) likewise — the output vector is the caller's and
    keeps what was appended before; the hypotheses of `reset_eq_new` hold for the failed decoder -/
example :
    let failed := (runF toyCfg d0 bad).1
    let finished := (runF toyCfg d0 good).1
    failed.state = none ∧ finished.state = none ∧
    (runF toyCfg (Dec.reset failed) good).2 = (runF toyCfg d0 good).2 ∧
    (runF toyCfg (Dec.reset finished) good).2 = (runF toyCfg d0 good).2 ∧
    (runF toyCfg (Dec.reset finished) good).1.out = [7, 9, 7, 9] ∧
    (runF toyCfg (Dec.reset finished) good).1.info = (runF toyCfg d0 good).1.info ∧
    failed.cap = Params.chunkBufferSize ∧ failed.limit = (Dec.new failed.opts).limit ∧ failed.out = [] := by
  decide +kernel

end examples
end Png.C18
