import PngVerif.Proofs.ReaderRefused
import PngVerif.Props.C18
/-!
# C18 — a frame refused by `Limits` ends the decoding of image data (repair 0a2b38f)

Property theorems only (lemmas: `Proofs/ReaderRefused.lean`, `Proofs/ReaderEnd.lean` — `Ended`, `refused_absorbing`,
`ended_run` —, `Proofs/ReaderInv.lean` — `Refused`, `Inv.ended`), about `Model/Reader.lean` (`step`, `run`), for an
ARBITRARY `cfg : Cfg`, every row transformation `t` satisfying its contract `TCfg.Ok`, every reader state satisfying
the protocol invariant `Inv` (which holds after every call sequence: `Png.C18.reachable_states_satisfy_inv`).

`Reader::read_until_image_data` (mod.rs:360-381) asks `Limits` for the row buffers of the (sub)frame whose data it
just reached BEFORE it installs that sub-frame.  When the reservation is refused it keeps the old sub-frame, sets
`current_interlace_info = None`, `consumed_and_flushed = true`, `remaining_frames = 0` and returns
`LimitsExceeded`.  (Before the repair the new sub-frame was installed first, and the next row call decoded the refused
frame with buffers nobody had accounted for.)

Two places report `LimitsExceeded` (`limits_error_cases`): the stream decoder's own checks — a fatal error after
which the stream decoder is poisoned (`dec.state = none`; `Png.C18.poisoned_absorbing` applies) — and the refused
reservation, after which the stream decoder is still usable.  `refused_frame_ends_decoding` is about the second; its
hypothesis `hlive` ("the stream decoder is usable afterwards") tells the two apart and cannot be dropped
(`Props/C18LimitsNeeded.lean`: `refused_frame_hypothesis_needed`, a concrete file on which the stream decoder reports
`LimitsExceeded` between two frames).
-/
namespace Png.C18
open Png Png.Framing Png.Reader

/-- **a frame refused by `Limits` ends the decoding of image data.**  Let a call of the `Reader` in a state
    satisfying the invariant answer `LimitsExceeded` and leave the stream decoder usable (the error is not a fatal
    error of the stream decoder).  Then
    * the call is a `next_frame` or a `next_frame_info` (whose `read_until_image_data` reached the next frame's
      data and was refused its row buffers);
    * the state it leaves has `remaining_frames = 0`, `consumed_and_flushed = true`,
      `current_interlace_info = None`, and the sub-frame still installed is the OLD one — width, height, raw row length
      of the frame whose buffers were paid for —; the invariant holds;
    * after ANY further calls and growths of the input (`later`; no `read_info`: a `Reader` exists) the state is
      still of that kind, and there `next_row` and `read_row` answer `None`, `next_frame` and `next_frame_info`
      answer `Parameter(PolledAfterEndOfImage)`, `finish` answers `Ok(())` or an error, and `next_row` sizes its
      scratch row by the OLD sub-frame's width; none of the calls in `later` returned a row, a frame, a frame
      control or a panic.  No pixel of the refused frame is ever delivered, no buffer is sized by it. -/
theorem refused_frame_ends_decoding (cfg : Cfg) (t : TCfg) (ht : t.Ok) (r : R) (op : Op) (w : String) (hI : Inv t r)
    (hr : r.isReader = true)
    (hres : (step cfg t r op).2 = .err .limits w)
    (hlive : (step cfg t r op).1.dec.state ≠ none) :
    (op = .nextFrameInfo ∨ ∃ p, op = .nextFrame p) ∧
    (step cfg t r op).1.remaining = 0 ∧ (step cfg t r op).1.sub.caf = true ∧ (step cfg t r op).1.sub.cur = none ∧
    (step cfg t r op).1.sub.width = r.sub.width ∧ (step cfg t r op).1.sub.height = r.sub.height ∧
    (step cfg t r op).1.sub.rowlen = r.sub.rowlen ∧
    Inv t (step cfg t r op).1 ∧
    ∀ later : List Op, Op.readInfo ∉ later →
      let s := (run cfg t (step cfg t r op).1 later).1
      s.remaining = 0 ∧ s.sub.caf = true ∧ s.sub.cur = none ∧
      s.sub.width = r.sub.width ∧ s.sub.height = r.sub.height ∧ s.sub.rowlen = r.sub.rowlen ∧
      (step cfg t s .nextRow).2 = .noRow ∧ (step cfg t s .readRow).2 = .noRow ∧
      (∀ p, (step cfg t s (.nextFrame p)).2 = .err .parameter "PolledAfterEndOfImage") ∧
      (step cfg t s .nextFrameInfo).2 = .err .parameter "PolledAfterEndOfImage" ∧
      ((step cfg t s .finish).2 = .done ∨ (step cfg t s .finish).2.isErr = true) ∧
      (∀ i, s.dec.info = some i → (step cfg t s .nextRow).1.scratchLen = outLineSize t i r.flags r.sub.width) ∧
      ∀ res ∈ (run cfg t (step cfg t r op).1 later).2, res.afterRefusal = true := by
  have hl : (step cfg t r op).2.isLimits = true := by rw [hres]; rfl
  obtain ⟨hop, hR⟩ := (step_limits cfg r op hI hr hl).resolve_left hlive
  have hsub := hR.sub
  have hInv1 : Inv t (step cfg t r op).1 ∧ (step cfg t r op).1.isReader = true := by
    obtain ⟨_, _, _, s4, _⟩ := step_reader cfg t r hr
    obtain ⟨s1, _⟩ := step_reader cfg t r hr
    rcases hop with rfl | ⟨p, rfl⟩
    · rw [s4]
      have := nextFrameInfo_spec cfg { r with pendingBuf := none } (hI.setPending none)
      generalize nextFrameInfo cfg t { r with pendingBuf := none } = out at this
      obtain ⟨r1, res⟩ := out
      exact ⟨this.1, this.2.1.isReader.trans hr⟩
    · rw [s1 p]
      have := nextFrameOp_spec cfg ht r p hI
      exact ⟨this.1, this.2.1.isReader.trans hr⟩
  have hE : Ended (step cfg t r op).1 := ⟨hR.remaining, by rw [hsub], by rw [hsub]⟩
  refine ⟨hop, hR.remaining, by rw [hsub], by rw [hsub], by rw [hsub], by rw [hsub], by rw [hsub], hInv1.1, ?_⟩
  intro later hlater
  obtain ⟨a1, a2, a3, a4, a5, a6⟩ := ended_run cfg later (step cfg t r op).1 hInv1.1 hInv1.2 hE hlater
  obtain ⟨e1, e2, e3, e4, e5⟩ := refused_absorbing cfg _ a1 a2 a3
  have hw : (run cfg t (step cfg t r op).1 later).1.sub.width = r.sub.width := by rw [a4, hsub]
  have hf : (run cfg t (step cfg t r op).1 later).1.flags = r.flags := a5.trans hR.flags
  refine ⟨a3.1, a3.2.1, a3.2.2, hw, by rw [a4, hsub], by rw [a4, hsub], ?_, by rw [e3], fun p => by rw [e1 p], by rw [e2],
    e5.2.2, ?_, a6⟩
  · obtain ⟨i, hi, _⟩ := a1.info
    rw [e4 i hi]
  · intro i hi
    rw [e4 i hi, hw, hf]

/-- **where a `LimitsExceeded` of the `Reader` comes from**: every call that answers it either leaves a poisoned
    stream decoder (the stream decoder's own `Limits` checks: a fatal error, `poisoned_absorbing` applies), or is a
    `next_frame` / `next_frame_info` that refused the next frame (`RefusedBy`: no frame remains, the old sub-frame is
    kept and marked consumed, the stream decoder is usable, the reader is not finished) -/
theorem limits_error_cases (cfg : Cfg) (t : TCfg) (r : R) (op : Op) (w : String) (hI : Inv t r) (hr : r.isReader = true)
    (hres : (step cfg t r op).2 = .err .limits w) :
    (step cfg t r op).1.dec.state = none ∨
      ((op = .nextFrameInfo ∨ ∃ p, op = .nextFrame p) ∧ RefusedBy r (step cfg t r op).1) :=
  step_limits cfg r op hI hr (by rw [hres]; rfl)

/-- **`Reader::read_until_image_data` itself** (called between frames: the current frame is consumed and flushed and a
    frame remains): when it fails with `LimitsExceeded`, the stream decoder is poisoned or the reservation was refused —
    then no frame remains, the sub-frame is the old one marked consumed, the unfiltering buffer, `bpp` and the scratch
    row are untouched, the stream decoder is usable and the invariant holds -/
theorem read_until_image_data_refusal (cfg : Cfg) (t : TCfg) (r r' : R) (w : String) (hI : Inv t r)
    (hcaf : r.sub.caf = true) (hrem : r.remaining ≠ 0)
    (h : readUntilImageData cfg t r = (r', .error (.err .limits w))) :
    r'.dec.state = none ∨
      (r'.remaining = 0 ∧ r'.sub = { r.sub with cur := none, caf := true } ∧ r'.ub = r.ub ∧ r'.bpp = r.bpp ∧
        r'.scratchLen = r.scratchLen ∧ r'.dec.state ≠ none ∧ Inv t r') := by
  have hfl := (hI.flushed hcaf).resolve_left hrem
  rcases readUntilImageData_limits cfg t r hI.base hfl.2 h rfl with h1 | h1
  · exact Or.inl h1
  · obtain ⟨f1, f2, f3, f4, _, _, _, _, _, _, _, _, f13⟩ := h1.fields
    exact Or.inr ⟨f1, f2, f3, f4, f13, (RefusedBy.of hI hrem h1).live, hI.refused h1⟩

/-! ## Non-vacuity: a 1×1 first frame, a 4×1 second frame, a budget of 4 bytes -/
section examples
open Png.Reader.Toy Png.Framing.Toy

/-- `IHDR` of a 4×1 8-bit grayscale canvas (toy CRC) -/
def ihdr4 : Bytes := [0, 0, 0, 13, 73, 72, 68, 82,  0, 0, 0, 4,  0, 0, 0, 1,  8, 0, 0, 0, 0,  0, 0, 0, 0]
/-- `fcTL` number 1: a 4×1 frame at (0, 0) -/
def fctlWide : Bytes :=
  [0, 0, 0, 26, 102, 99, 84, 76,  0, 0, 0, 1,  0, 0, 0, 4,  0, 0, 0, 1,  0, 0, 0, 0,  0, 0, 0, 0,  0, 1, 0, 1, 0, 0,  0, 0, 0, 0]
/-- `fdAT` number 2 with the toy stream `[5, 0, 1, 2, 3, 4]`: one row, filter type 0, pixels 1 2 3 4 -/
def fdatWide : Bytes := [0, 0, 0, 10, 102, 100, 65, 84,  0, 0, 0, 2,  5, 0, 1, 2, 3, 4,  0, 0, 0, 0]
/-- a two-frame APNG on a 4×1 canvas: frame 0 (`IDAT`) is 1×1 — one byte per output line —, frame 1 is 4×1 -/
def apngWide : Bytes := sig ++ ihdr4 ++ actl ++ fctl 0 ++ idat1 ++ fctlWide ++ fdatWide ++ iend

/-- a budget of 4 bytes admits frame 0 (1 byte) and not frame 1 (4 bytes, 3 left) -/
def w0 : R := R.init {} 4 {} apngWide apngWide.length
/-- the state before the refused call: `read_info`, then frame 0 decoded by `next_frame` -/
def beforeRefusal : R := (run toyCfg idT w0 [.readInfo, .nextFrame 0]).1

/-- with a large budget both frames are decoded: the second one is the 4-pixel row -/
example : (run toyCfg idT (R.init {} 1000 {} apngWide apngWide.length)
    [.readInfo, .nextFrame 0, .nextFrameInfo, .nextRow, .nextRow]).2.map code = [1, 104, 4, 204, 3] := by decide +kernel

/-- with the budget of 4: `next_frame_info` answers `LimitsExceeded` (13); then rows answer `None` (3), the frame calls
    `Parameter` (12), `finish` succeeds (5) — the 4-pixel row of the refused frame is never delivered -/
example : (run toyCfg idT w0
    [.readInfo, .nextFrame 0, .nextFrameInfo, .nextRow, .readRow, .nextFrame 0, .nextFrameInfo, .finish, .nextRow]).2.map code =
    [1, 104, 13, 3, 3, 12, 12, 5, 3] := by decide +kernel

/-- the same when the refused call is `next_frame` -/
example : (run toyCfg idT w0 [.readInfo, .nextFrame 0, .nextFrame 0, .nextRow, .nextFrameInfo, .nextFrame 0]).2.map code =
    [1, 104, 13, 3, 12, 12] := by decide +kernel

/-- the hypotheses of `refused_frame_ends_decoding` hold at `beforeRefusal` with `op = next_frame_info`: the invariant,
    a `Reader` exists, the answer is `LimitsExceeded`, the stream decoder is usable afterwards -/
example : Inv idT beforeRefusal :=
  reachable_states_satisfy_inv toyCfg idT idT_ok {} _ {} apngWide _ _ (by decide +kernel) (by decide +kernel)
    (by decide +kernel)
example : beforeRefusal.isReader = true ∧
    (step toyCfg idT beforeRefusal .nextFrameInfo).2 = .err .limits "LimitsExceeded" ∧
    (step toyCfg idT beforeRefusal .nextFrameInfo).1.dec.state.isSome = true := by decide +kernel

/-- … and the state it leaves: no frame remains, the installed sub-frame is still the 1×1 one (raw row 2 bytes),
    marked consumed; 3 bytes of the budget are left (the refused 4 were not charged) -/
example : let s := (step toyCfg idT beforeRefusal .nextFrameInfo).1
    (s.remaining, s.sub.caf, s.sub.cur.isNone, s.sub.width, s.sub.height, s.sub.rowlen, s.dec.limit) =
      (0, true, true, 1, 1, 2, 3) := by decide +kernel

/-- a later `next_row` sizes the scratch row by the paid-for frame: 1 byte, not 4 -/
example : (run toyCfg idT w0 [.readInfo, .nextFrame 0, .nextFrameInfo, .nextRow]).1.scratchLen = 1 := by decide +kernel

/-- with a budget of 0 even the first frame is refused: `read_info` answers `LimitsExceeded`, the `Decoder` is
    consumed and no `Reader` exists (later calls: the model's `Parameter` answer) -/
example : (run toyCfg idT (R.init {} 0 {} apngWide apngWide.length) [.readInfo, .nextRow]).2.map code = [13, 12] := by
  decide +kernel

end examples
end Png.C18
