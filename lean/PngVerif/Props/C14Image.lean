import PngVerif.Props.C14
import PngVerif.Proofs.Scanlines
import PngVerif.Model.ScanlinesImpl
/-!
# C14 at the level of a whole image, pass or animation frame

`Props/C14.lean` states the filter laws row by row.  The property also speaks about WHICH previous row
is used ("including the first row of an image or pass"): the encoder filters every row against the
previous RAW row and the first row against an all-zero row of the same length (`encoder.rs`: the
previous-row buffer is cleared and resized with zeros when an image or frame starts); the decoder
reconstructs every row against the previously RECONSTRUCTED row and the first row against an EMPTY
previous row (`unfilter` then substitutes Sub for Paeth, None for Up and uses its own Average arm).

`encodeRowsImpl` / `decodeRowsImpl` are these two loops over the implementation-shaped row functions
(`filterImpl`, `adaptive`, `unfilterImpl` of `Model/Filter.lean`, which Tie B compares with
`filter::filter` / `filter::unfilter` and the harness part `props/c14_enc.rs` with the rows the real
encoder emits).  The theorem: for every filter setting (each fixed type, or adaptive), every pixel size,
every row length that is a whole number of pixels, every number of rows and all contents, the decoder's
loop applied to the encoder's loop gives back the rows, and every emitted filter type byte is legal.
-/
namespace Png.C14Image

/-- what one step of the encoder's loop emits is the specification's filtered row of the chosen type -/
theorem encode_step_spec (setting : Option FilterType) (bpp : Nat) (hb : 1 ≤ bpp) (prev r : Bytes)
    (hle : bpp ≤ r.length) (hprev : prev.length = r.length) :
    ∃ ft, encodeStep setting bpp prev r = (ft, filtRow ft bpp prev r) := by
  cases setting with
  | some ft => exact ⟨ft, by simp [encodeStep, C14.filter_impl_eq_spec ft bpp hb prev r hle hprev]⟩
  | none =>
    refine ⟨(adaptive bpp prev r).1, ?_⟩
    have h := (C14.adaptive_legal bpp prev r).2
    have h2 := C14.filter_impl_eq_spec (adaptive bpp prev r).1 bpp hb prev r hle hprev
    show adaptive bpp prev r = ((adaptive bpp prev r).1, filtRow (adaptive bpp prev r).1 bpp prev r)
    rw [← h2, ← h]

/-- the general step: the decoder's previous row is either absent while the encoder's is all zero (first row),
    or the two are the same row -/
theorem decode_encode_rows_gen (setting : Option FilterType) (bpp rb : Nat) (hb : 1 ≤ bpp) (hdvd : bpp ∣ rb)
    (hrb : bpp ≤ rb) (rows : List Bytes) (hlen : ∀ r ∈ rows, r.length = rb) :
    ∀ (pe pd tail : Bytes), pe.length = rb → (pd = [] ∧ pe = List.replicate rb 0 ∨ pd = pe) →
      decodeRowsImpl bpp rb rows.length pd (encodeRowsImpl setting bpp pe rows ++ tail) = some rows := by
  induction rows with
  | nil => intro pe pd tail _ _; simp [decodeRowsImpl]
  | cons r rs ih =>
    intro pe pd tail hpe hrel
    have hr : r.length = rb := hlen r (by simp)
    have hrs : ∀ x ∈ rs, x.length = rb := fun x hx => hlen x (by simp [hx])
    obtain ⟨ft, hft⟩ := encode_step_spec setting bpp hb pe r (by omega) (by omega)
    simp only [encodeRowsImpl, hft, List.length_cons, List.cons_append, List.append_assoc, decodeRowsImpl]
    have hfl : (filtRow ft bpp pe r).length = rb := by rw [filtRow_length, hr]
    have hnot : ¬ ((filtRow ft bpp pe r ++ (encodeRowsImpl setting bpp r rs ++ tail)).length < rb) := by
      simp only [List.length_append]; omega
    simp only [hnot, if_false, ofNat_ftByte]
    have htake : (filtRow ft bpp pe r ++ (encodeRowsImpl setting bpp r rs ++ tail)).take rb = filtRow ft bpp pe r := by
      rw [List.take_append_of_le_length (by omega), List.take_of_length_le (by omega)]
    have hdrop : (filtRow ft bpp pe r ++ (encodeRowsImpl setting bpp r rs ++ tail)).drop rb
        = encodeRowsImpl setting bpp r rs ++ tail := by
      rw [← hfl]; simp
    rw [htake, hdrop]
    have hrow : unfilterImpl ft bpp pd (filtRow ft bpp pe r) = r := by
      rw [C14.unfilter_impl_eq_spec ft bpp hb pd (filtRow ft bpp pe r) (by rw [hfl]; exact hdvd)
        (by rcases hrel with ⟨h, _⟩ | h
            · exact Or.inl h
            · exact Or.inr (by rw [h, hfl, hpe]))]
      rcases hrel with ⟨h1, h2⟩ | h
      · rw [h1, h2, filtRow_first, C14.recon_filt]
      · rw [h, C14.recon_filt]
    rw [hrow, ih hrs r r tail hr (Or.inr rfl)]
    rfl

/-- **Whole image / pass / frame**: the decoder's row loop applied to what the encoder's row loop emits gives
    back the rows — for every filter setting (`some ft`: fixed type; `none`: adaptive), every `bpp ≥ 1`, every row
    length that is a non-zero whole number of pixels, every number of rows, all contents; bytes that follow the
    last row are left alone. -/
theorem image_roundtrip_impl (setting : Option FilterType) (bpp rb : Nat) (hb : 1 ≤ bpp) (hdvd : bpp ∣ rb)
    (hrb : bpp ≤ rb) (rows : List Bytes) (hlen : ∀ r ∈ rows, r.length = rb) (tail : Bytes) :
    decodeRowsImpl bpp rb rows.length [] (encodeRowsImpl setting bpp (List.replicate rb 0) rows ++ tail) = some rows :=
  decode_encode_rows_gen setting bpp rb hb hdvd hrb rows hlen (List.replicate rb 0) [] tail (by simp)
    (Or.inl ⟨rfl, rfl⟩)

/-- the same against the SPECIFICATION's decoder (`decodeScanlines`, `reconRow`): what the encoder's loop emits is a
    stream the specification decodes to the rows given -/
theorem image_encode_spec_decodes (setting : Option FilterType) (bpp rb : Nat) (hb : 1 ≤ bpp) (hrb : bpp ≤ rb)
    (rows : List Bytes) (hlen : ∀ r ∈ rows, r.length = rb) :
    ∀ (pe pd tail : Bytes), pe.length = rb → (pd = [] ∧ pe = List.replicate rb 0 ∨ pd = pe) →
      decodeScanlines bpp rb rows.length pd (encodeRowsImpl setting bpp pe rows ++ tail) = some rows := by
  induction rows with
  | nil => intro pe pd tail _ _; simp [decodeScanlines]
  | cons r rs ih =>
    intro pe pd tail hpe hrel
    have hr : r.length = rb := hlen r (by simp)
    have hrs : ∀ x ∈ rs, x.length = rb := fun x hx => hlen x (by simp [hx])
    obtain ⟨ft, hft⟩ := encode_step_spec setting bpp hb pe r (by omega) (by omega)
    simp only [encodeRowsImpl, hft, List.length_cons, List.cons_append, List.append_assoc, decodeScanlines]
    have hfl : (filtRow ft bpp pe r).length = rb := by rw [filtRow_length, hr]
    have hnot : ¬ ((filtRow ft bpp pe r ++ (encodeRowsImpl setting bpp r rs ++ tail)).length < rb) := by
      simp only [List.length_append]; omega
    simp only [hnot, if_false, ofNat_ftByte]
    have htake : (filtRow ft bpp pe r ++ (encodeRowsImpl setting bpp r rs ++ tail)).take rb = filtRow ft bpp pe r := by
      rw [List.take_append_of_le_length (by omega), List.take_of_length_le (by omega)]
    have hdrop : (filtRow ft bpp pe r ++ (encodeRowsImpl setting bpp r rs ++ tail)).drop rb
        = encodeRowsImpl setting bpp r rs ++ tail := by
      rw [← hfl]; simp
    rw [htake, hdrop]
    have hrow : reconRow ft bpp pd (filtRow ft bpp pe r) = r := by
      rcases hrel with ⟨h1, h2⟩ | h
      · rw [h1, h2, filtRow_first, C14.recon_filt]
      · rw [h, C14.recon_filt]
    rw [hrow, ih hrs r r tail hr (Or.inr rfl)]
    rfl

/-- every filter type byte the encoder's loop emits is one of 0..4, and with the adaptive setting one of 1..4:
    stated on the first row of the remaining rows, which by the recursion is every row -/
theorem emitted_type_legal (setting : Option FilterType) (bpp : Nat) (prev r : Bytes) (rs : List Bytes) :
    ∃ ft out rest, encodeRowsImpl setting bpp prev (r :: rs) = ftByte ft :: out ++ rest ∧
      (ftByte ft).toNat ≤ 4 ∧ (setting = none → 1 ≤ (ftByte ft).toNat) := by
  cases setting with
  | some ft =>
    refine ⟨ft, filterImpl ft bpp prev r, encodeRowsImpl (some ft) bpp r rs, by simp [encodeRowsImpl, encodeStep], ?_, by simp⟩
    cases ft <;> decide
  | none =>
    refine ⟨(adaptive bpp prev r).1, (adaptive bpp prev r).2, encodeRowsImpl none bpp r rs, by simp [encodeRowsImpl, encodeStep], ?_, ?_⟩
    · rcases (C14.adaptive_legal bpp prev r).1 with h | h | h | h <;> rw [h] <;> decide
    · intro _; rcases (C14.adaptive_legal bpp prev r).1 with h | h | h | h <;> rw [h] <;> decide

-- non-vacuity: a two-row, two-pixel image of 2-byte pixels, Paeth and adaptive, with wrap-around values
example : decodeRowsImpl 2 4 2 [] (encodeRowsImpl (some .paeth) 2 (List.replicate 4 0) [[1, 200, 3, 250], [255, 0, 7, 9]])
    = some [[1, 200, 3, 250], [255, 0, 7, 9]] := by decide
example : decodeRowsImpl 2 4 2 [] (encodeRowsImpl none 2 (List.replicate 4 0) [[1, 200, 3, 250], [255, 0, 7, 9]])
    = some [[1, 200, 3, 250], [255, 0, 7, 9]] := by decide

end Png.C14Image
