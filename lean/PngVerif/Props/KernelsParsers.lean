import PngVerif.Proofs.KernelParserTactic
import PngVerif.Props.KernelsReaderGeom
/-!
# Tie A, part 2 (translator): the chunk parsers of `StreamingDecoder` (`src/decoder/stream.rs`) - header, palette, colour metadata

`Generated/KernelsParsers.lean` is rewritten by `tools/rs2lean.py` from the Rust source on every run: `parse_ihdr`, `parse_plte`, `parse_sbit`,
`parse_trns`, `parse_bkgd`, `parse_phys`, `parse_gama`, `parse_chrm`, `parse_srgb`, `parse_cicp`, `parse_mdcv`, `parse_clli` (and
`ScaledFloat::from_scaled`, which three of them call).

How a translated parser sees the decoder: the chunk body `self.current_chunk.raw_bytes` is the parameter `body : List Int`; a
`buf.read_be()?` of width w at the (constant) offset k is `if k + w ≤ body.length then .. Gen.beU<8w> body k .. else <ChunkTooShort>`; whole-body
uses (`.len()`, `.clone()` into a stored vector, the loop over the sBIT bytes, the index juggling of tRNS) work on the list itself and a
stored vector is an output of type `Option (List Int)`; the scalar state the parser reads are further parameters (`have_idat`,
`info.is_some`, colour type and bit depth, `palette.is_some`, `limits.bytes`, the old value of the field it sets); the result is
`([error code,] tag of the Decoded event, [its payload,] the state afterwards ..)` with code 0 = `Ok`, k = position of the error in the
kernel's `errors` list (`?` on `read_be` = `ChunkTooShort`, which is how `parse_chunk` maps `UnexpectedEof` - read from its source).
`interp..` below says what such a result means in the framing model; the theorems say
`Framing.parse.. d = interp.. d (translated parser on d's bytes and state)` for EVERY body (every length, every byte) and every state:
same error class and name, same event, same stored values (for the parsers that cannot fail - cICP, mDCV, cLLI, bKGD - whether and what
they store).

What seeded changes do here: `<` for `<=` in the sBIT range test, or the test against `bit_depth` where `sample_depth` belongs (C16_1),
changes `Gen.parse_sbit` so that `kernel_parse_sbit` fails; accepting unit byte 2 in pHYs breaks `kernel_parse_phys`; a u16 read where a
u32 belongs shifts every later offset.
-/
namespace Png.Kernels
open Png Png.Framing

/-! ## gAMA -/

/-- the result `(code, event tag, gama_chunk afterwards)` of the translated `parse_gama`, in the model: 0 = `Ok(Decoded::Nothing)` with the
    stored value; 1 = `ChunkTooShort` (the model's `eof`, which `parseChunk` turns into that error); 2 = `AfterIdat`; 3 = `DuplicateChunk` -/
def interpGama (d : Dec) : Int × Int × Option Int → PRes
  | (code, _tag, g) =>
    if code = 0 then .ok (setInfo d (fun i => { i with gama := g.map Int.toNat }), .nothing)
    else if code = 1 then .error .eof else if code = 2 then .error (.format "AfterIdat gAMA") else .error (.format "DuplicateChunk gAMA")

/-- `parse_gama` (stream.rs) = `Framing.parseGama`, for every chunk body and every state -/
theorem kernel_parse_gama (d : Dec) (i : Info) (hi : d.info = some i) :
    parseGama d = interpGama d (Gen.parse_gama (bInt d.raw) d.haveIdat true (i.gama.map Int.ofNat)) := by
  unfold parseGama Gen.parse_gama Gen.ScaledFloat_from_scaled
  parser_tie (interpGama d) [] [interpGama, hi]

/-! ## sRGB -/
def interpSrgb (d : Dec) : Int × Int × Option Int → PRes
  | (code, _tag, s) =>
    if code = 0 then .ok (setInfo d (fun i => { i with srgb := s.map Int.toNat }), .nothing)
    else if code = 1 then .error .eof else if code = 2 then .error (.format "AfterIdat sRGB")
    else if code = 3 then .error (.format "DuplicateChunk sRGB") else .error (.format "InvalidSrgbRenderingIntent")

theorem kernel_parse_srgb (d : Dec) (i : Info) (hi : d.info = some i) :
    parseSrgb d = interpSrgb d (Gen.parse_srgb (bInt d.raw) d.haveIdat true (i.srgb.map Int.ofNat)) := by
  unfold parseSrgb Gen.parse_srgb
  parser_tie (interpSrgb d) [] [interpSrgb, hi]

/-! ## pHYs -/
def interpPhys (d : Dec) : Int × Int × Int × Int × Int × Bool × Int × Int × Int → PRes
  | (code, _tag, e0, e1, e2, _s, x, y, u) =>
    if code = 0 then .ok (setInfo d (fun i => { i with pixelDims := some (x.toNat, y.toNat, u.toNat) }), .pixelDimensions e0.toNat e1.toNat e2.toNat)
    else if code = 1 then .error .eof else if code = 2 then .error (.format "AfterIdat pHYs")
    else if code = 3 then .error (.format "DuplicateChunk pHYs") else .error (.format "InvalidUnit")

theorem kernel_parse_phys (d : Dec) (i : Info) (hi : d.info = some i) (x y u : Int) :
    parsePhys d = interpPhys d (Gen.parse_phys (bInt d.raw) d.haveIdat true i.pixelDims.isSome x y u) := by
  unfold parsePhys Gen.parse_phys
  parser_tie (interpPhys d) [] [interpPhys, hi]

/-! ## cHRM -/
def interpChrm (d : Dec) : Int × Int × Bool × Int × Int × Int × Int × Int × Int × Int × Int → PRes
  | (code, _tag, _s, wx, wy, rx, ry, gx, gy, bx, by_) =>
    if code = 0 then
      .ok (setInfo d (fun i => { i with chrm := some [wx.toNat, wy.toNat, rx.toNat, ry.toNat, gx.toNat, gy.toNat, bx.toNat, by_.toNat] }), .nothing)
    else if code = 1 then .error .eof else if code = 2 then .error (.format "AfterIdat cHRM") else .error (.format "DuplicateChunk cHRM")

theorem kernel_parse_chrm (d : Dec) (i : Info) (hi : d.info = some i) (a b c e f g h j : Int) :
    parseChrm d = interpChrm d (Gen.parse_chrm (bInt d.raw) d.haveIdat true i.chrm.isSome a b c e f g h j) := by
  unfold parseChrm Gen.parse_chrm Gen.ScaledFloat_from_scaled
  parser_tie (interpChrm d) [] [interpChrm, hi, rdU32s_zero, be32At, List.range'_succ]

/-! ## IHDR -/

/-- result of the translated `parse_ihdr`: `(code, event tag, event payload (width, height, depth, colour, interlaced), info.is_some, the five
    fields of the new `Info`, "every other field of the new Info is `None` / empty")` -/
def interpIhdr (d : Dec) : Int × Int × Int × Int × Int × Int × Int × Bool × Int × Int × Int × Int × Bool × Bool → PRes
  | (code, _tag, e0, e1, e2, e3, e4, _s, w, h, bd, ct, il, _rest) =>
    if code = 0 then
      .ok ({ d with info := some { width := w.toNat, height := h.toNat, depth := bd.toNat, color := ct.toNat, interlaced := il } },
           .header e0.toNat e1.toNat e2.toNat e3.toNat (e4 == 1))
    else if code = 1 then .error .eof
    else if code = 2 then .error (.format "DuplicateChunk IHDR")
    else if code = 3 then .error (.format "InvalidDimensions")
    else if code = 4 then .error (.format "InvalidBitDepth")
    else if code = 5 then .error (.format "InvalidColorType")
    else if code = 6 then .error (.format "InvalidColorBitDepth")
    else if code = 7 then .error (.format "UnknownCompressionMethod")
    else if code = 8 then .error (.format "UnknownFilterMethod")
    else .error (.format "UnknownInterlaceMethod")

/-- `parse_ihdr` (stream.rs) = `Framing.parseIhdr`, for every chunk body and every state.  `kernel_combination_invalid` is a CONDITIONAL
    rewrite rule here (`colorOk c`, `depthOk d`): `is_combination_invalid` is called after both `from_u8` decoders returned `Some`, so on the
    path that reaches it `depth_isSome` / `color_isSome` (from `kernel_depth_from_u8` / `kernel_color_from_u8`) have put `depthOk ..` and
    `colorOk ..` of the two header bytes among the hypotheses and `depth_getD` / `color_getD` have turned the two arguments into these bytes;
    `simp` discharges the two side conditions from them.  Nothing is used about `is_combination_invalid` outside the 25 pairs of variants. -/
theorem kernel_parse_ihdr (d : Dec) (w h bd ct : Int) (il : Bool) :
    parseIhdr d = interpIhdr d (Gen.parse_ihdr (bInt d.raw) d.info.isSome w h bd ct il) := by
  unfold parseIhdr Gen.parse_ihdr
  parser_tie (interpIhdr d) [kernel_combination_invalid] [interpIhdr, kernel_combination_invalid]

/-- on success (code 0) the result of the translated `parse_ihdr` has the event tag 1 (`Header` in `enum Decoded`), `self.info` is `Some`, and
    every field of the new `Info` other than the five returned comes from `Default::default()`, where the translator has checked that it is
    `None` / empty -/
def ihdrOutputsOk (r : Int × Int × Int × Int × Int × Int × Int × Bool × Int × Int × Int × Int × Bool × Bool) : Prop :=
  r.1 = 0 → r.2.1 = 1 ∧ r.2.2.2.2.2.2.2.1 = true ∧ r.2.2.2.2.2.2.2.2.2.2.2.2.2 = true

theorem kernel_parse_ihdr_outputs (body : List Int) (s : Bool) (w h bd ct : Int) (il : Bool) :
    ihdrOutputsOk (Gen.parse_ihdr body s w h bd ct il) := by
  unfold Gen.parse_ihdr
  simp only []
  repeat' (with_reducible refine ite_prop_of (P := ihdrOutputsOk) (fun _ => ?_) (fun _ => ?_))
  all_goals first
    | (unfold ihdrOutputsOk; intro h0; first | (exact ⟨rfl, rfl, rfl⟩) | (simp at h0))
    | (exfalso; simp_all)

/-! ## cLLI, cICP, mDCV: "first one wins", a malformed chunk is ignored (the parsers cannot fail) -/

/-- the fields of an `Option<ContentLightLevelInfo>` as the translated parser takes them (meaningless when `None`) -/
def clliFields : Option (Nat × Nat) → Int × Int
  | some (a, b) => (a, b)
  | none => (0, 0)

theorem clli_recon (o : Option (Nat × Nat)) : (if o.isSome then some ((clliFields o).1.toNat, (clliFields o).2.toNat) else none) = o := by
  rcases o with _ | ⟨a, b⟩ <;> simp [clliFields]

/-- result of the translated `parse_clli`: `(event tag, content_light_level.is_some, its two fields)` afterwards -/
def interpClli (d : Dec) : Int × Bool × Int × Int → PRes
  | (_tag, s, a, b) => .ok (setInfo d (fun i => { i with clli := if s then some (a.toNat, b.toNat) else none }), .nothing)

theorem kernel_parse_clli (d : Dec) (i : Info) (hi : d.info = some i) :
    parseClli d = interpClli d (Gen.parse_clli (bInt d.raw) true i.clli.isSome (clliFields i.clli).1 (clliFields i.clli).2) := by
  unfold parseClli Gen.parse_clli
  parser_tie (interpClli d) [] [interpClli, hi]
  all_goals (symm; apply setInfo_same hi; simp [clli_recon])

def cicpFields : Option (Nat × Nat × Nat × Bool) → Int × Int × Int × Bool
  | some (a, b, c, f) => (a, b, c, f)
  | none => (0, 0, 0, false)

theorem cicp_recon (o : Option (Nat × Nat × Nat × Bool)) :
    (if o.isSome then some ((cicpFields o).1.toNat, (cicpFields o).2.1.toNat, (cicpFields o).2.2.1.toNat, (cicpFields o).2.2.2) else none) = o := by
  rcases o with _ | ⟨a, b, c, f⟩ <;> simp [cicpFields]

def interpCicp (d : Dec) : Int × Bool × Int × Int × Int × Bool → PRes
  | (_tag, s, cp, tf, mc, fr) =>
    .ok (setInfo d (fun i => { i with cicp := if s then some (cp.toNat, tf.toNat, mc.toNat, fr) else none }), .nothing)

theorem kernel_parse_cicp (d : Dec) (i : Info) (hi : d.info = some i) :
    parseCicp d = interpCicp d (Gen.parse_cicp (bInt d.raw) d.haveIdat true (i.palette.map bInt) i.cicp.isSome
      (cicpFields i.cicp).1 (cicpFields i.cicp).2.1 (cicpFields i.cicp).2.2.1 (cicpFields i.cicp).2.2.2) := by
  unfold parseCicp Gen.parse_cicp
  parser_tie (interpCicp d) [] [interpCicp, hi]
  all_goals (split <;> first | (exfalso; simp_all; done) | (simp only [Except.ok.injEq, Prod.mk.injEq, and_true]; symm; apply setInfo_same hi; simp [cicp_recon]))

/-- `Option<MasteringDisplayColorVolume>` as the translated parser takes it: the eight chromaticity values in the order of the struct
    (white, red, green, blue; x then y), then the two luminances -/
def mdcvFields : Option (List Nat × Nat × Nat) → List Int × Int × Int
  | some (cs, mx, mn) => (cs.map Int.ofNat, mx, mn)
  | none => ([], 0, 0)

def interpMdcv (d : Dec) : Int × Bool × Int × Int × Int × Int × Int × Int × Int × Int × Int × Int → PRes
  | (_tag, s, wx, wy, rx, ry, gx, gy, bx, by_, mx, mn) =>
    .ok (setInfo d (fun i => { i with mdcv := if s then some ([wx.toNat, wy.toNat, rx.toNat, ry.toNat, gx.toNat, gy.toNat, bx.toNat, by_.toNat],
                                                                 mx.toNat, mn.toNat) else none }), .nothing)

/-- the stored `mDCV` has eight chromaticity values (an invariant of the model: `parseMdcv` stores nothing else) -/
def mdcvShape : Option (List Nat × Nat × Nat) → Prop
  | some (cs, _, _) => cs.length = 8
  | none => True

theorem mdcv_recon (o : Option (List Nat × Nat × Nat)) (h : mdcvShape o) :
    (if o.isSome then some ([((mdcvFields o).1.getD 0 0).toNat, ((mdcvFields o).1.getD 1 0).toNat, ((mdcvFields o).1.getD 2 0).toNat,
       ((mdcvFields o).1.getD 3 0).toNat, ((mdcvFields o).1.getD 4 0).toNat, ((mdcvFields o).1.getD 5 0).toNat,
       ((mdcvFields o).1.getD 6 0).toNat, ((mdcvFields o).1.getD 7 0).toNat], (mdcvFields o).2.1.toNat, (mdcvFields o).2.2.toNat) else none) = o := by
  rcases o with _ | ⟨cs, mx, mn⟩
  · simp
  · simp only [mdcvShape] at h
    rcases cs with _ | ⟨a0, _ | ⟨a1, _ | ⟨a2, _ | ⟨a3, _ | ⟨a4, _ | ⟨a5, _ | ⟨a6, _ | ⟨a7, _ | ⟨a8, t⟩⟩⟩⟩⟩⟩⟩⟩⟩ <;>
      first | (simp [mdcvFields]; done) | (simp at h; done) | (simp at h; omega)

theorem kernel_parse_mdcv (d : Dec) (i : Info) (hi : d.info = some i) (hm : mdcvShape i.mdcv) :
    parseMdcv d = interpMdcv d (Gen.parse_mdcv (bInt d.raw) d.haveIdat true (i.palette.map bInt) i.mdcv.isSome
      ((mdcvFields i.mdcv).1.getD 0 0) ((mdcvFields i.mdcv).1.getD 1 0) ((mdcvFields i.mdcv).1.getD 2 0) ((mdcvFields i.mdcv).1.getD 3 0)
      ((mdcvFields i.mdcv).1.getD 4 0) ((mdcvFields i.mdcv).1.getD 5 0) ((mdcvFields i.mdcv).1.getD 6 0) ((mdcvFields i.mdcv).1.getD 7 0)
      (mdcvFields i.mdcv).2.1 (mdcvFields i.mdcv).2.2) := by
  unfold parseMdcv Gen.parse_mdcv Gen.ScaledFloat_from_scaled
  parser_tie (interpMdcv d) [] [interpMdcv, hi, rdU16s_zero, be16At, List.range'_succ]
  all_goals (split <;> first | (exfalso; simp_all; done) |
    (simp only [Except.ok.injEq, Prod.mk.injEq, and_true]; symm; apply setInfo_same hi; simp [← List.getD_eq_getElem?_getD, mdcv_recon _ hm]))

/-! ## PLTE, sBIT, tRNS, bKGD: whole-body chunks (stored byte vectors are outputs of type `List Int`) -/

/-- `Limits::reserve_bytes` on naturals (from `kernel_reserve_bytes`): accepted iff the budget suffices -/
theorem reserve_nat (n l : Nat) : Gen.Limits_reserve_bytes n l = if n ≤ l then ((0 : Int), ((l - n : Nat) : Int)) else (1, (l : Int)) := by
  have := (kernel_reserve_bytes { limit := l } n).1
  simp only [Framing.reserve] at this
  rw [this]
  by_cases h : n ≤ l <;> simp [h]
theorem reserve_fst (n l : Nat) : (Gen.Limits_reserve_bytes n l).1 = 0 ↔ n ≤ l := by
  rw [reserve_nat]; split <;> simp_all
theorem reserve_snd (n l : Nat) : (Gen.Limits_reserve_bytes n l).2 = if n ≤ l then ((l - n : Nat) : Int) else (l : Int) := by
  rw [reserve_nat]; split <;> simp_all

/-- result of the translated `parse_plte`: `(code, event tag, palette afterwards, limits.bytes afterwards)`; 1 = `DuplicateChunk`,
    2 = `LimitsExceeded` -/
def interpPlte (d : Dec) : Int × Int × Option (List Int) × Int → PRes
  | (code, _tag, pal, lim) =>
    if code = 0 then .ok (setInfo { d with limit := lim.toNat } (fun i => { i with palette := pal.map unInt }), .nothing)
    else if code = 1 then .error (.format "DuplicateChunk PLTE") else .error .limits

theorem kernel_parse_plte (d : Dec) (i : Info) (hi : d.info = some i) :
    parsePlte d = interpPlte d (Gen.parse_plte (bInt d.raw) d.limit true i.color (i.palette.map bInt)) := by
  unfold parsePlte Gen.parse_plte
  parser_tie (interpPlte d) [reserve_fst, reserve_snd] [interpPlte, hi, reserve, setInfo]

/-- result of the translated `parse_sbit`: `(code, event tag, sbit afterwards, limits.bytes afterwards)`; 1 = `AfterPlte`, 2 = `AfterIdat`,
    3 = `DuplicateChunk`, 4 = `LimitsExceeded`, 5 = `InvalidSbitChunkSize`, 6 = `InvalidSbit` -/
def interpSbit (d : Dec) : Int × Int × Option (List Int) × Int → PRes
  | (code, _tag, sb, lim) =>
    if code = 0 then .ok (setInfo { d with limit := lim.toNat } (fun i => { i with sbit := sb.map unInt }), .nothing)
    else if code = 1 then .error (.format "AfterPlte sBIT") else if code = 2 then .error (.format "AfterIdat sBIT")
    else if code = 3 then .error (.format "DuplicateChunk sBIT") else if code = 4 then .error .limits
    else if code = 5 then .error (.format "InvalidSbitChunkSize") else .error (.format "InvalidSbit")

theorem kernel_parse_sbit (d : Dec) (i : Info) (hi : d.info = some i) (hc : colorOk i.color = true) :
    parseSbit d = interpSbit d (Gen.parse_sbit (bInt d.raw) d.haveIdat d.limit true i.color i.depth (i.palette.map bInt) (i.sbit.map bInt)) := by
  unfold parseSbit Gen.parse_sbit
  rcases colorOk_cases hc with h | h | h | h | h <;>
    (parser_tie (interpSbit d) [reserve_fst, reserve_snd, bInt_any, h] [interpSbit, hi, reserve, setInfo, h, sbitExpected]
     all_goals try (simp_all [-Nat.not_le, sbitExpected]; done)
     all_goals grind)

/-- result of the translated `parse_trns`: `(code, event tag, trns afterwards, limits.bytes afterwards)`; 1 = `DuplicateChunk`, 2 = `AfterIdat`,
    3 = `LimitsExceeded`, 4 = `ShortPalette`, 5 = `BeforePlte`, 6 = `OutsidePlteIdat`, 7 = `ColorWithBadTrns` -/
def interpTrns (d : Dec) : Int × Int × Option (List Int) × Int → PRes
  | (code, _tag, tr, lim) =>
    if code = 0 then .ok (setInfo { d with limit := lim.toNat } (fun i => { i with trns := tr.map unInt }), .nothing)
    else if code = 1 then .error (.format "DuplicateChunk tRNS") else if code = 2 then .error (.format "AfterIdat tRNS")
    else if code = 3 then .error .limits else if code = 4 then .error (.format "ShortPalette")
    else if code = 5 then .error (.format "BeforePlte tRNS") else if code = 6 then .error (.format "OutsidePlteIdat tRNS")
    else .error (.format "ColorWithBadTrns")

theorem kernel_parse_trns (d : Dec) (i : Info) (hi : d.info = some i) :
    parseTrns d = interpTrns d (Gen.parse_trns (bInt d.raw) d.haveIdat d.limit true i.color i.depth (i.palette.map bInt) (i.trns.map bInt)) := by
  unfold parseTrns Gen.parse_trns
  parser_tie (interpTrns d) [reserve_fst, reserve_snd] [interpTrns, hi, reserve, setInfo]
  -- the two paths that store a shortened vector (grey / RGB below 16 bits): the stored bytes are bytes 1 (3, 5) of the body
  all_goals first
    | (have hl : 6 ≤ d.raw.length := by omega
       obtain ⟨a, b, c, e, f, g, r, hr⟩ := exists_cons6 d.raw hl
       simp_all [bInt, unInt]; done)
    | (have hl : 2 ≤ d.raw.length := by omega
       obtain ⟨a, b, r, hr⟩ := exists_cons2 d.raw hl
       simp_all [bInt, unInt]; done)

/-- result of the translated `parse_bkgd` (it cannot fail): `(event tag, bkgd afterwards)` -/
def interpBkgd (d : Dec) : Int × Option (List Int) → PRes
  | (_tag, bk) => .ok (setInfo d (fun i => { i with bkgd := bk.map unInt }), .nothing)

theorem kernel_parse_bkgd (d : Dec) (i : Info) (hi : d.info = some i) (hc : colorOk i.color = true) :
    parseBkgd d = interpBkgd d (Gen.parse_bkgd (bInt d.raw) d.haveIdat true i.color (i.palette.map bInt) (i.bkgd.map bInt)) := by
  unfold parseBkgd Gen.parse_bkgd
  rcases colorOk_cases hc with h | h | h | h | h <;>
    (parser_tie (interpBkgd d) [h] [interpBkgd, hi, h]
     -- the paths on which nothing is stored
     all_goals first
       | (symm; apply setInfo_same hi; cases i; simp_all; done)
       | ((repeat' split) <;> first
           | (exfalso; simp_all; done)
           | (simp only [Except.ok.injEq, Prod.mk.injEq, and_true]; symm; apply setInfo_same hi; cases i; simp_all; done)))

/-! ## no panic: the `_ok` functions (`unwrap` of `self.info`, integer ranges, indices of the tRNS vector) -/

theorem kernel_parsers_ok (d : Dec) (i : Info) (hi : d.info = some i) (hl : d.limit < 2 ^ 64) (s1 s2 s3 s4 : Bool)
    (a0 a1 a2 a3 a4 a5 a6 a7 a8 a9 : Int) (o1 o2 : Option Int) (p1 p2 : Option (List Int)) (c b : Int) :
    Gen.parse_gama_ok (bInt d.raw) d.haveIdat true o1 = true ∧
    Gen.parse_srgb_ok (bInt d.raw) d.haveIdat true o2 = true ∧
    Gen.parse_phys_ok (bInt d.raw) d.haveIdat true s1 a0 a1 a2 = true ∧
    Gen.parse_chrm_ok (bInt d.raw) d.haveIdat true s2 a0 a1 a2 a3 a4 a5 a6 a7 = true ∧
    Gen.parse_ihdr_ok (bInt d.raw) s3 a0 a1 a2 a3 s4 = true ∧
    Gen.parse_cicp_ok (bInt d.raw) d.haveIdat true p1 s1 a0 a1 a2 s2 = true ∧
    Gen.parse_mdcv_ok (bInt d.raw) d.haveIdat true p1 s1 a0 a1 a2 a3 a4 a5 a6 a7 a8 a9 = true ∧
    Gen.parse_clli_ok (bInt d.raw) true s1 a0 a1 = true ∧
    Gen.parse_plte_ok (bInt d.raw) d.limit true c p1 = true ∧
    Gen.parse_sbit_ok (bInt d.raw) d.haveIdat d.limit true c b p1 p2 = true ∧
    Gen.parse_trns_ok (bInt d.raw) d.haveIdat d.limit true c b p1 p2 = true ∧
    Gen.parse_bkgd_ok (bInt d.raw) d.haveIdat true c p1 p2 = true := by
  have hr := fun n => (kernel_reserve_bytes d n).2.2 hl
  refine ⟨?_, ?_, ?_, ?_, ?_, ?_, ?_, ?_, ?_, ?_, ?_, ?_⟩
  · unfold Gen.parse_gama_ok; parser_ok []
  · unfold Gen.parse_srgb_ok; parser_ok []
  · unfold Gen.parse_phys_ok; parser_ok []
  · unfold Gen.parse_chrm_ok; parser_ok []
  · unfold Gen.parse_ihdr_ok; parser_ok [checked_ok_be32]
  · unfold Gen.parse_cicp_ok; parser_ok []
  · unfold Gen.parse_mdcv_ok; parser_ok [be16_mul2_ok]
  · unfold Gen.parse_clli_ok; parser_ok []
  · unfold Gen.parse_plte_ok; parser_ok [hr]
  · unfold Gen.parse_sbit_ok; parser_ok [hr]
  · unfold Gen.parse_trns_ok; parser_ok [hr, reserve_fst]
  · unfold Gen.parse_bkgd_ok; parser_ok []

/-! ## examples on concrete chunk bodies -/

-- IHDR 2x3, 8-bit RGB, not interlaced; Adam7; colour type 3 with 16 bits; filter method 1; one byte short
example : Gen.parse_ihdr [0,0,0,2, 0,0,0,3, 8, 2, 0, 0, 0] false 0 0 0 0 false = (0, 1, 2, 3, 8, 2, 0, true, 2, 3, 8, 2, false, true) := by rfl
example : (Gen.parse_ihdr [0,0,0,2, 0,0,0,3, 8, 2, 0, 0, 1] false 0 0 0 0 false).2.2.2.2.2.2.1 = 1 := by decide
example : (Gen.parse_ihdr [0,0,0,2, 0,0,0,3, 16, 3, 0, 0, 0] false 0 0 0 0 false).1 = 6 := by decide
example : (Gen.parse_ihdr [0,0,0,2, 0,0,0,3, 8, 2, 0, 1, 0] false 0 0 0 0 false).1 = 8 := by decide
example : (Gen.parse_ihdr [0,0,0,2, 0,0,0,3, 8, 2, 0, 0] false 0 0 0 0 false).1 = 1 := by decide
example : (Gen.parse_ihdr [0,0,0,0, 0,0,0,3, 8, 2, 0, 0, 0] false 0 0 0 0 false).1 = 3 := by decide
-- pHYs: unit 1 (metre) is stored, unit 2 is refused
example : Gen.parse_phys [0,0,11,19, 0,0,11,19, 1] false true false 0 0 0 = (0, 4, 2835, 2835, 1, true, 2835, 2835, 1) := by rfl
example : (Gen.parse_phys [0,0,11,19, 0,0,11,19, 2] false true false 0 0 0).1 = 4 := by decide
-- sBIT: indexed colour has sample depth 8 whatever the bit depth; greyscale with 2 bits does not accept 3; the length is checked first
example : Gen.parse_sbit [8, 8, 8] false 100 true 3 2 none none = (0, 0, some [8, 8, 8], 97) := by decide
example : (Gen.parse_sbit [3] false 100 true 0 2 none none).1 = 6 ∧ (Gen.parse_sbit [2] false 100 true 0 2 none none).1 = 0 ∧
    (Gen.parse_sbit [0] false 100 true 0 2 none none).1 = 6 ∧ (Gen.parse_sbit [1, 1] false 100 true 0 2 none none).1 = 5 := by decide
-- tRNS: 8-bit RGB keeps the low bytes of the three samples; 16-bit keeps all six bytes; greyscale-alpha has no tRNS
example : Gen.parse_trns [0, 7, 0, 8, 0, 9] false 100 true 2 8 none none = (0, 0, some [7, 8, 9], 94) := by decide
example : Gen.parse_trns [1, 7, 2, 8, 3, 9] false 100 true 2 16 none none = (0, 0, some [1, 7, 2, 8, 3, 9], 94) := by decide
example : (Gen.parse_trns [1, 7] false 100 true 4 8 none none).1 = 7 ∧ (Gen.parse_trns [1] false 100 true 0 8 none none).1 = 4 ∧
    (Gen.parse_trns [1, 7] false 1 true 0 8 none none).1 = 3 := by decide
-- PLTE: a second palette is refused before anything is charged to the limits; a palette is kept whatever the colour type (no length check)
example : Gen.parse_plte [1, 2, 3] 10 true 3 (some [9, 9, 9]) = (1, 0, some [9, 9, 9], 10) ∧ Gen.parse_plte [1, 2, 3] 10 true 0 none = (0, 0, some [1, 2, 3], 7) := by
  decide
-- cICP: full range flag 2 is ignored like a missing chunk; a good one is stored
example : Gen.parse_cicp [9, 16, 0, 1] false true none false 0 0 0 false = (0, true, 9, 16, 0, true) ∧
    (Gen.parse_cicp [9, 16, 0, 2] false true none false 0 0 0 false).2.1 = false ∧
    (Gen.parse_cicp [9, 16, 0, 1, 0] false true none false 0 0 0 false).2.1 = false := by decide

end Png.Kernels
