import PngVerif.Props.C13LazyRefine
import PngVerif.Proofs.LazyRefinePost
import PngVerif.Proofs.LazyRefineDefault
/-!
# The two `Reader` models, part 2: the file layouts `Props/C13LazyRefine.lean` leaves out

`Props/C13LazyRefine.lean` relates the byte-level model `Png.Reader` to the call-protocol model `Png.Lazy` for
well-formed stills without chunks behind the image data and for animations whose first frame is the `IDAT` image.  Here:

* Section 1: **stills with chunks `post` behind the image data** (`wellFormedStill cfg h cs zs post`).  The hypothesis on
  `post` is `PostAccepted` (`Proofs/LazyRefinePost.lean`): `parse_chunk` accepts the chunks one after the other — the
  condition `AncChunksG` puts on the chunks before the image data (chunks of any length: the chunk buffer grows, charged
  to the limits), for every state the stream decoder can be in behind the image data.  `post_unknown_accepted`: any
  chunks of types `parse_chunk` does not know qualify (`post_unknown_any_length_accepted`: of any length);
  `post_tEXt_accepted`: a `tEXt` chunk does.  The hypothesis of the C01 theorems on `post` (`c.1 ≠ IDAT`, type and length below `2^32`) is NOT enough:
  C01 never reads behind the image data, `finish` does, and a chunk `parse_chunk` refuses makes `finish` answer with an
  error the `Lazy` model has no word for: `still_post_c01_statement` is the formulation with the C01 hypothesis,
  `still_post_c01_counterexample` refutes it (a second `IHDR` behind the image data).
* Section 2: **animations whose `IDAT` image is not part of the animation** (`wellFormedApngDefault`): the default image is
  frame 0 of the abstraction (header `h`), the frames of the `fcTL` / `fdAT` chunks follow; `remaining_frames` is
  `acTL.num_frames + 1`.
* Section 3: the row accounting of `C04Lazy.lazy_rows_exact` transferred to the byte-level model for animations
  (`apng_rows_exact`, `apng_default_rows_exact`) and stills with chunks behind the image data (`still_post_rows_exact`).
* Section 4: the theorems' instances on toy files (non-vacuity), and runs of both models on these files.
-/
namespace Png.C13LazyRefine
open Png Png.Framing Png.WellFormed Png.Reader Png.LazyRefine

/-! ## 1. Stills with chunks behind the image data -/

/-- **A well-formed still image with accepted chunks behind the image data, image data of ANY length** (conditional on the
    answers, as `still_refines_lazy`) -/
theorem still_post_refines_lazy (cfg : Cfg) (hI : cfg.InflateOk) (hC : cfg.CrcOk) {t : TCfg} {f : Flags}
    (ht : t.IsIdentity f) (hts : CreateSafe t) (opts : Options) (limit : Nat) (h : Header) (hv : h.Valid)
    (cs : List (ChunkType × Bytes)) (dA : Dec)
    (hcs : AncChunksG cfg (afterIhdr cfg opts limit h) cs dA) (hna : NoActl cs)
    (zs : List Bytes) (raw : Bytes) (hzs : zs ≠ []) (hlen : ∀ z ∈ zs, z.length < 2 ^ 32)
    (hinf : cfg.inflate zs.flatten = some (raw, true))
    (post : List (ChunkType × Bytes)) (hpost : PostAccepted cfg dA h.lineSize post)
    (hsize : h.lineSize * h.height < 2 ^ 64) (hlimit : h.lineSize ≤ dA.limit) :
    ∃ (r0 : R) (arrs : List Lazy.Arrival) (s0 : Lazy.St),
      Reader.step cfg t (R.init opts limit f (wellFormedStill cfg h cs zs post) (wellFormedStill cfg h cs zs post).length)
        .readInfo = (r0, .header) ∧
      C04Lazy.Start (absEnv h h raw [] arrs) r0.remaining s0 ∧ (∀ a ∈ arrs, a.last = 0) ∧
      ∀ ops : List Reader.Op, (∀ op ∈ ops, isCall op = true) → (∀ res ∈ (Reader.run cfg t r0 ops).2, okRes res = true) →
        resMatchAll (geomOf h h []) (Reader.run cfg t r0 ops).2 (Lazy.run (absEnv h h raw [] arrs) s0 (absOps ops)).2 = true := by
  obtain ⟨r0, i0, arrs, s0, h1, h2, h3, hl0, h4, h5⟩ :=
    still_post_start cfg hI hC ht opts limit h hv cs dA hcs hna zs raw hzs hlen hinf post hpost hsize hlimit
  refine ⟨r0, arrs, s0, h1, ⟨h3, by omega, h4⟩, hl0, fun ops hc hok => ?_⟩
  exact (run_sim cfg t hts _ _ h3 (by simp [geomOf, absEnv, absFile]) _ f (fun _ => rfl) i0 ops r0 s0 h5 hc hok).1

/-- **C13LazyRefine (still image with chunks behind the image data).**  `still_exact_refines_lazy` for
    `wellFormedStill cfg h cs zs post` with accepted chunks `post`: EVERY sequence of `next_frame`, `next_row` /
    `next_interlaced_row`, `next_frame_info`, `finish` calls has only answers the `Lazy` model speaks about, and the
    `Lazy` model answers the same calls with their skeletons. -/
theorem still_post_exact_refines_lazy (cfg : Cfg) (hI : cfg.InflateOk) (hC : cfg.CrcOk) {t : TCfg} {f : Flags}
    (ht : t.IsIdentity f) (hts : CreateSafe t) (opts : Options) (limit : Nat) (h : Header) (hv : h.Valid)
    (cs : List (ChunkType × Bytes)) (dA : Dec)
    (hcs : AncChunksG cfg (afterIhdr cfg opts limit h) cs dA) (hna : NoActl cs)
    (zs : List Bytes) (raw : Bytes) (hzs : zs ≠ []) (hlen : ∀ z ∈ zs, z.length < 2 ^ 32)
    (hinf : cfg.inflate zs.flatten = some (raw, true)) (hraw : RawOk h raw)
    (post : List (ChunkType × Bytes)) (hpost : PostAccepted cfg dA h.lineSize post)
    (hsize : h.lineSize * h.height < 2 ^ 64) (hlimit : h.lineSize ≤ dA.limit) :
    ∃ (r0 : R) (arrs : List Lazy.Arrival) (s0 : Lazy.St),
      Reader.step cfg t (R.init opts limit f (wellFormedStill cfg h cs zs post) (wellFormedStill cfg h cs zs post).length)
        .readInfo = (r0, .header) ∧
      C04Lazy.Start (absEnv h h raw [] arrs) r0.remaining s0 ∧ (∀ a ∈ arrs, a.last = 0) ∧
      ∀ ops : List Reader.Op, (∀ op ∈ ops, isCall' op = true) →
        (∀ res ∈ (Reader.run cfg t r0 ops).2, okRes res = true) ∧
        resMatchAll (geomOf h h []) (Reader.run cfg t r0 ops).2 (Lazy.run (absEnv h h raw [] arrs) s0 (absOps ops)).2 = true := by
  obtain ⟨r0, arrs, s0, h1, h2, h3, hl0, h4, h5⟩ :=
    still_post_exact cfg hI hC ht hts opts limit h hv cs dA hcs hna zs raw hzs hlen hinf hraw post hpost hsize hlimit
  exact ⟨r0, arrs, s0, h1, ⟨h3, by omega, h4⟩, hl0, h5⟩

/-- **C13LazyRefine under the EAGER arrival (still image with chunks behind the image data).**  `read_info` returns `r0`,
    the `Lazy` model has an initial state `s0` on the file's abstraction under `Arrival.eager`, and for EVERY sequence of
    `next_frame`, `next_row` / `next_interlaced_row`, `next_frame_info`, `finish` calls the answers of the byte-level
    model are answers the `Lazy` model speaks about and the `Lazy` model's answers are their skeletons, call by call. -/
theorem still_post_exact_refines_eager (cfg : Cfg) (hI : cfg.InflateOk) (hC : cfg.CrcOk) {t : TCfg} {f : Flags}
    (ht : t.IsIdentity f) (hts : CreateSafe t) (opts : Options) (limit : Nat) (h : Header) (hv : h.Valid)
    (cs : List (ChunkType × Bytes)) (dA : Dec)
    (hcs : AncChunksG cfg (afterIhdr cfg opts limit h) cs dA) (hna : NoActl cs)
    (zs : List Bytes) (raw : Bytes) (hzs : zs ≠ []) (hlen : ∀ z ∈ zs, z.length < 2 ^ 32)
    (hinf : cfg.inflate zs.flatten = some (raw, true)) (hraw : RawOk h raw)
    (post : List (ChunkType × Bytes)) (hpost : PostAccepted cfg dA h.lineSize post)
    (hsize : h.lineSize * h.height < 2 ^ 64) (hlimit : h.lineSize ≤ dA.limit) :
    ∃ (r0 : R) (s0 : Lazy.St),
      Reader.step cfg t (R.init opts limit f (wellFormedStill cfg h cs zs post) (wellFormedStill cfg h cs zs post).length)
        .readInfo = (r0, .header) ∧
      C04Lazy.Start (eagerAbsEnv h h raw []) r0.remaining s0 ∧
      ∀ ops : List Reader.Op, (∀ op ∈ ops, isCall' op = true) →
        (∀ res ∈ (Reader.run cfg t r0 ops).2, okRes res = true) ∧
        resMatchAll (geomOf h h []) (Reader.run cfg t r0 ops).2 (Lazy.run (eagerAbsEnv h h raw []) s0 (absOps ops)).2 = true := by
  obtain ⟨r0, arrs, s0, h1, hS, hl0, h5⟩ :=
    still_post_exact_refines_lazy cfg hI hC ht hts opts limit h hv cs dA hcs hna zs raw hzs hlen hinf hraw post hpost
      hsize hlimit
  obtain ⟨s0', hi', heq⟩ := to_eager h h raw [] arrs r0.remaining s0 hS.valid hS.rem_pos hl0 hS.init
  refine ⟨r0, s0', h1, ⟨eagerAbsEnv_valid h h raw [], hS.rem_pos, hi'⟩, fun ops hops => ?_⟩
  obtain ⟨a1, a2⟩ := h5 ops hops
  exact ⟨a1, by rw [← heq]; exact a2⟩

/-- **C13LazyRefine, all five calls (still image with chunks behind the image data)**: `read_row` with the documented
    buffer is among the calls (contract `TCfg.Ok`, file shorter than 4 GiB) -/
theorem still_post_exact_refines_eager_all (cfg : Cfg) (hI : cfg.InflateOk) (hC : cfg.CrcOk) {t : TCfg} {f : Flags}
    (ht : t.IsIdentity f) (hto : t.Ok) (hts : CreateSafe t) (opts : Options) (limit : Nat) (h : Header) (hv : h.Valid)
    (cs : List (ChunkType × Bytes)) (dA : Dec)
    (hcs : AncChunksG cfg (afterIhdr cfg opts limit h) cs dA) (hna : NoActl cs)
    (zs : List Bytes) (raw : Bytes) (hzs : zs ≠ []) (hlen : ∀ z ∈ zs, z.length < 2 ^ 32)
    (hinf : cfg.inflate zs.flatten = some (raw, true)) (hraw : RawOk h raw)
    (post : List (ChunkType × Bytes)) (hpost : PostAccepted cfg dA h.lineSize post)
    (hsize : h.lineSize * h.height < 2 ^ 64) (hlimit : h.lineSize ≤ dA.limit)
    (hfl : (wellFormedStill cfg h cs zs post).length < 2 ^ 32) :
    ∃ (r0 : R) (s0 : Lazy.St),
      Reader.step cfg t (R.init opts limit f (wellFormedStill cfg h cs zs post) (wellFormedStill cfg h cs zs post).length)
        .readInfo = (r0, .header) ∧
      C04Lazy.Start (eagerAbsEnv h h raw []) r0.remaining s0 ∧
      ∀ ops : List Reader.Op, (∀ op ∈ ops, isCall op = true) →
        (∀ res ∈ (Reader.run cfg t r0 ops).2, okRes res = true) ∧
        resMatchAll (geomOf h h []) (Reader.run cfg t r0 ops).2 (Lazy.run (eagerAbsEnv h h raw []) s0 (absOps ops)).2 = true := by
  obtain ⟨r0, arrs, s0, h1, h2, h3, hl0, h4, h5⟩ :=
    still_post_exact_all cfg hI hC ht hto hts opts limit h hv cs dA hcs hna zs raw hzs hlen hinf hraw post hpost hsize
      hlimit hfl
  obtain ⟨s0', hi', heq⟩ := to_eager h h raw [] arrs r0.remaining s0 h3 (by omega) hl0 h4
  refine ⟨r0, s0', h1, ⟨eagerAbsEnv_valid h h raw [], by omega, hi'⟩, fun ops hops => ?_⟩
  obtain ⟨a1, a2⟩ := h5 ops hops
  exact ⟨a1, by rw [← heq]; exact a2⟩

/-- `PostAccepted` holds for any chunks of types `parse_chunk` does not know that fit the chunk buffer (32 KiB or what the
    chunks before the image data made it grow to) -/
theorem post_unknown_accepted (cfg : Cfg) (dA : Dec) (ls : Nat) (post : List (ChunkType × Bytes))
    (h : ∀ c ∈ post, c.1 ∉ knownTypes ∧ c.1 ≠ IDAT ∧ c.1 ≠ fdAT ∧ c.1 ≠ IEND ∧ c.1 < 2 ^ 32 ∧ c.2.length < 2 ^ 32 ∧
      c.2.length ≤ dA.cap) : PostAccepted cfg dA ls post := postAccepted_unknown cfg dA ls post h

/-- ... and for a `tEXt` chunk with a legal keyword within the limits (a type `parse_chunk` knows) -/
theorem post_tEXt_accepted (cfg : Cfg) (dA : Dec) (ls : Nat) (kw text : Bytes) (hi : dA.info.isSome = true)
    (hk : KeywordOk kw) (ho : dA.opts.ignoreText = false) (hlim : (kw ++ 0 :: text).length ≤ dA.limit - ls)
    (hcap : (kw ++ 0 :: text).length ≤ dA.cap) (hlen : (kw ++ 0 :: text).length < 2 ^ 32) :
    PostAccepted cfg dA ls [(tEXt, kw ++ 0 :: text)] := postAccepted_tEXt cfg dA ls kw text hi hk ho hlim hcap hlen

/-- ... and for a chunk of unknown type of ANY length when the limits let the chunk buffer grow to its length -/
theorem post_unknown_any_length_accepted (cfg : Cfg) (dA : Dec) (ls : Nat) (t : ChunkType) (body : Bytes)
    (hk : t ∉ knownTypes) (h1 : t ≠ IDAT) (h2 : t ≠ fdAT) (h3 : t ≠ IEND) (hlt : t < 2 ^ 32) (hlen : body.length < 2 ^ 32)
    (cap' limit' : Nat) (hg : growCap body.length (body.length + 1) dA.cap (dA.limit - ls) = some (cap', limit')) :
    PostAccepted cfg dA ls [(t, body)] :=
  postAccepted_unknown_any_length cfg dA ls t body hk h1 h2 h3 hlt hlen cap' limit' hg

/-- accepted chunks satisfy the hypothesis of the C01 theorems on `post` (the converse fails) -/
theorem post_accepted_c01 (cfg : Cfg) (dA : Dec) (ls : Nat) (post : List (ChunkType × Bytes))
    (h : PostAccepted cfg dA ls post) : ∀ c ∈ post, c.1 ≠ IDAT ∧ c.1 < 2 ^ 32 ∧ c.2.length < 2 ^ 32 := by
  obtain ⟨d', hd'⟩ := h { dA with limit := dA.limit - ls, out := [] } rfl rfl rfl rfl rfl
  exact ancChunks_c01 hd'

/-- The formulation with the hypothesis of `C01_decode` / `C01_decode_chunks` on `post` in place of `PostAccepted`.
    It is FALSE (`still_post_c01_counterexample`): C01 never reads behind the image data, `finish` does. -/
def still_post_c01_statement : Prop :=
  ∀ (cfg : Cfg) (t : TCfg) (f : Flags), cfg.InflateOk → cfg.CrcOk → t.IsIdentity f → t.Ok → CreateSafe t →
  ∀ (opts : Options) (limit : Nat) (h : Header) (cs : List (ChunkType × Bytes)) (dA : Dec) (zs : List Bytes) (raw : Bytes)
    (post : List (ChunkType × Bytes)),
    h.Valid → AncChunksG cfg (afterIhdr cfg opts limit h) cs dA → NoActl cs → zs ≠ [] → (∀ z ∈ zs, z.length < 2 ^ 32) →
    cfg.inflate zs.flatten = some (raw, true) → RawOk h raw →
    (∀ c ∈ post, c.1 ≠ IDAT ∧ c.1 < 2 ^ 32 ∧ c.2.length < 2 ^ 32) →
    h.lineSize * h.height < 2 ^ 64 → h.lineSize ≤ dA.limit → (wellFormedStill cfg h cs zs post).length < 2 ^ 32 →
    ∃ (r0 : R) (s0 : Lazy.St),
      Reader.step cfg t (R.init opts limit f (wellFormedStill cfg h cs zs post) (wellFormedStill cfg h cs zs post).length)
        .readInfo = (r0, .header) ∧
      C04Lazy.Start (eagerAbsEnv h h raw []) r0.remaining s0 ∧
      ∀ ops : List Reader.Op, (∀ op ∈ ops, isCall op = true) →
        (∀ res ∈ (Reader.run cfg t r0 ops).2, okRes res = true) ∧
        resMatchAll (geomOf h h []) (Reader.run cfg t r0 ops).2 (Lazy.run (eagerAbsEnv h h raw []) s0 (absOps ops)).2 = true

open Png.Reader.Toy Png.Framing.Toy Png.Reader.PathsToy

/-- the toy still image of `Props/C13LazyRefine.lean` with chunks `post` behind the image data, and the reader `read_info`
    returns on it -/
def fileG (post : List (ChunkType × Bytes)) : Bytes := wellFormedStill toyCfg hG [] zsG post
def rGp (post : List (ChunkType × Bytes)) : R :=
  (Reader.step toyCfg idT (R.init {} (2 ^ 64 - 1) {} (fileG post) (fileG post).length) .readInfo).1

/-- a second `IHDR` behind the image data: `finish` answers with an error the `Lazy` model has no word for -/
theorem bad_post_finish : ((Reader.run toyCfg idT (rGp [(IHDR, [])]) [.finish]).2.all okRes) = false := by decide +kernel

/-- **counterexample**: with the C01 hypothesis on `post` the statement fails for `finish` on the toy still image followed
    by a second (empty) `IHDR` chunk -/
theorem still_post_c01_counterexample : ¬ still_post_c01_statement := by
  intro H
  obtain ⟨r0, s0, h1, _, h3⟩ := H toyCfg idT {} toy_inflateOk toy_crcOk idT_isIdentity idT_ok idT_createSafe {} (2 ^ 64 - 1) hG
    [] _ zsG rawG [(IHDR, [])] (by decide) (.nil _) (fun _ h => by cases h) (by decide) (by decide) (by decide) (by decide)
    (by decide) (by decide) (by decide) (by decide)
  have hr : r0 = rGp [(IHDR, [])] := (congrArg Prod.fst h1).symm
  subst hr
  have h4 := (h3 [.finish] (by decide)).1
  have h5 : ((Reader.run toyCfg idT (rGp [(IHDR, [])]) [.finish]).2.all okRes) = true :=
    List.all_eq_true.2 (fun res hres => h4 res hres)
  rw [bad_post_finish] at h5
  cases h5

/-! ## 2. Animations whose `IDAT` image is not part of the animation -/

/-- **A well-formed animation whose `IDAT` image is not part of the animation, the data of every frame of ANY length**
    (conditional on the answers, as `apng_refines_lazy`).  The abstraction: frame 0 is the default image (header `h`,
    data `raw0`), frames `1 ..` are those of the `fcTL` / `fdAT` chunks. -/
theorem apng_default_refines_lazy (cfg : Cfg) (hI : cfg.InflateOk) (hC : cfg.CrcOk) {t : TCfg} {f : Flags}
    (ht : t.IsIdentity f) (hts : CreateSafe t) (opts : Options) (limit : Nat) (h : Header) (hv : h.Valid) (plays : Nat)
    (hplays : plays < 2 ^ 32) (anc : List (ChunkType × Bytes)) (dAnc : Dec)
    (frames : List (FrameControl × List Bytes × Bytes)) (hnf : frames.length < 2 ^ 32)
    (hanc : AncChunksG cfg (actlAfter (afterIhdr cfg opts limit h) frames.length plays) anc dAnc) (hna : NoActl anc)
    (zs0 : List Bytes) (raw0 : Bytes)
    (hzs0 : zs0 ≠ []) (hlen0 : ∀ z ∈ zs0, z.length < 2 ^ 32) (hinf0 : cfg.inflate zs0.flatten = some (raw0, true))
    (hframes : ∀ fr ∈ frames, FrameD cfg h fr)
    (hseq : (frames.map fun x => 1 + x.2.1.length).sum < 2 ^ 32)
    (hsize : h.lineSize * h.height < 2 ^ 64) (hlimit : h.lineSize ≤ dAnc.limit) :
    ∃ (r0 : R) (arrs : List Lazy.Arrival) (s0 : Lazy.St),
      Reader.step cfg t (R.init opts limit f (wellFormedApngDefault cfg h plays anc zs0 (framesOf frames))
        (wellFormedApngDefault cfg h plays anc zs0 (framesOf frames)).length) .readInfo = (r0, .header) ∧
      C04Lazy.Start (absEnv h h raw0 frames arrs) r0.remaining s0 ∧ (∀ a ∈ arrs, a.last = 0) ∧
      ∀ ops : List Reader.Op, (∀ op ∈ ops, isCall op = true) → (∀ res ∈ (Reader.run cfg t r0 ops).2, okRes res = true) →
        resMatchAll (geomOf h h frames) (Reader.run cfg t r0 ops).2
          (Lazy.run (absEnv h h raw0 frames arrs) s0 (absOps ops)).2 = true := by
  obtain ⟨r0, i0, arrs, s0, h1, h2, h3, hl0, h4, h5⟩ :=
    apng_default_start cfg hI hC ht opts limit h hv plays hplays anc dAnc frames hnf hanc hna zs0 raw0 hzs0 hlen0 hinf0
      hframes hseq hsize hlimit
  refine ⟨r0, arrs, s0, h1, ⟨h3, by omega, h4⟩, hl0, fun ops hc hok => ?_⟩
  exact (run_sim cfg t hts _ _ h3 (by simp [geomOf, absEnv, absFile]) _ f (fun _ => rfl) i0 ops r0 s0 h5 hc hok).1

/-- **C13LazyRefine (animation whose `IDAT` image is not part of the animation).**  The default image and every frame
    carry exactly the scanlines of their size with valid filter bytes (`RawOk`), identity transformation, sufficient
    limits: EVERY sequence of `next_frame`, `next_row` / `next_interlaced_row`, `next_frame_info`, `finish` calls on the
    reader `read_info` returns has only answers the `Lazy` model speaks about, and the `Lazy` model — on the file's
    abstraction, from its initial state for `remaining_frames = num_frames + 1` — answers with their skeletons. -/
theorem apng_default_exact_refines_lazy (cfg : Cfg) (hI : cfg.InflateOk) (hC : cfg.CrcOk) {t : TCfg} {f : Flags}
    (ht : t.IsIdentity f) (hts : CreateSafe t) (opts : Options) (limit : Nat) (h : Header) (hv : h.Valid) (plays : Nat)
    (hplays : plays < 2 ^ 32) (anc : List (ChunkType × Bytes)) (dAnc : Dec)
    (frames : List (FrameControl × List Bytes × Bytes)) (hnf : frames.length < 2 ^ 32)
    (hanc : AncChunksG cfg (actlAfter (afterIhdr cfg opts limit h) frames.length plays) anc dAnc) (hna : NoActl anc)
    (zs0 : List Bytes) (raw0 : Bytes)
    (hzs0 : zs0 ≠ []) (hlen0 : ∀ z ∈ zs0, z.length < 2 ^ 32) (hinf0 : cfg.inflate zs0.flatten = some (raw0, true))
    (hraw0 : RawOk h raw0) (hframes : ∀ fr ∈ frames, FrameOk cfg h fr)
    (hseq : (frames.map fun x => 1 + x.2.1.length).sum < 2 ^ 32)
    (hsize : h.lineSize * h.height < 2 ^ 64)
    (hlimit : h.lineSize + (frames.map fun x => (h.frame x.1).lineSize).sum ≤ dAnc.limit) :
    ∃ (r0 : R) (arrs : List Lazy.Arrival) (s0 : Lazy.St),
      Reader.step cfg t (R.init opts limit f (wellFormedApngDefault cfg h plays anc zs0 (framesOf frames))
        (wellFormedApngDefault cfg h plays anc zs0 (framesOf frames)).length) .readInfo = (r0, .header) ∧
      C04Lazy.Start (absEnv h h raw0 frames arrs) r0.remaining s0 ∧ (∀ a ∈ arrs, a.last = 0) ∧
      ∀ ops : List Reader.Op, (∀ op ∈ ops, isCall' op = true) →
        (∀ res ∈ (Reader.run cfg t r0 ops).2, okRes res = true) ∧
        resMatchAll (geomOf h h frames) (Reader.run cfg t r0 ops).2
          (Lazy.run (absEnv h h raw0 frames arrs) s0 (absOps ops)).2 = true := by
  obtain ⟨r0, arrs, s0, h1, h2, h3, hl0, h4, h5⟩ :=
    apng_default_exact cfg hI hC ht hts opts limit h hv plays hplays anc dAnc frames hnf hanc hna zs0 raw0 hzs0 hlen0 hinf0
      hraw0 hframes hseq hsize hlimit
  exact ⟨r0, arrs, s0, h1, ⟨h3, by omega, h4⟩, hl0, h5⟩

/-- **C13LazyRefine under the EAGER arrival (animation whose `IDAT` image is not part of the animation).** -/
theorem apng_default_exact_refines_eager (cfg : Cfg) (hI : cfg.InflateOk) (hC : cfg.CrcOk) {t : TCfg} {f : Flags}
    (ht : t.IsIdentity f) (hts : CreateSafe t) (opts : Options) (limit : Nat) (h : Header) (hv : h.Valid) (plays : Nat)
    (hplays : plays < 2 ^ 32) (anc : List (ChunkType × Bytes)) (dAnc : Dec)
    (frames : List (FrameControl × List Bytes × Bytes)) (hnf : frames.length < 2 ^ 32)
    (hanc : AncChunksG cfg (actlAfter (afterIhdr cfg opts limit h) frames.length plays) anc dAnc) (hna : NoActl anc)
    (zs0 : List Bytes) (raw0 : Bytes)
    (hzs0 : zs0 ≠ []) (hlen0 : ∀ z ∈ zs0, z.length < 2 ^ 32) (hinf0 : cfg.inflate zs0.flatten = some (raw0, true))
    (hraw0 : RawOk h raw0) (hframes : ∀ fr ∈ frames, FrameOk cfg h fr)
    (hseq : (frames.map fun x => 1 + x.2.1.length).sum < 2 ^ 32)
    (hsize : h.lineSize * h.height < 2 ^ 64)
    (hlimit : h.lineSize + (frames.map fun x => (h.frame x.1).lineSize).sum ≤ dAnc.limit) :
    ∃ (r0 : R) (s0 : Lazy.St),
      Reader.step cfg t (R.init opts limit f (wellFormedApngDefault cfg h plays anc zs0 (framesOf frames))
        (wellFormedApngDefault cfg h plays anc zs0 (framesOf frames)).length) .readInfo = (r0, .header) ∧
      C04Lazy.Start (eagerAbsEnv h h raw0 frames) r0.remaining s0 ∧
      ∀ ops : List Reader.Op, (∀ op ∈ ops, isCall' op = true) →
        (∀ res ∈ (Reader.run cfg t r0 ops).2, okRes res = true) ∧
        resMatchAll (geomOf h h frames) (Reader.run cfg t r0 ops).2
          (Lazy.run (eagerAbsEnv h h raw0 frames) s0 (absOps ops)).2 = true := by
  obtain ⟨r0, arrs, s0, h1, hS, hl0, h5⟩ :=
    apng_default_exact_refines_lazy cfg hI hC ht hts opts limit h hv plays hplays anc dAnc frames hnf hanc hna zs0 raw0 hzs0
      hlen0 hinf0 hraw0 hframes hseq hsize hlimit
  obtain ⟨s0', hi', heq⟩ := to_eager h h raw0 frames arrs r0.remaining s0 hS.valid hS.rem_pos hl0 hS.init
  refine ⟨r0, s0', h1, ⟨eagerAbsEnv_valid h h raw0 frames, hS.rem_pos, hi'⟩, fun ops hops => ?_⟩
  obtain ⟨a1, a2⟩ := h5 ops hops
  exact ⟨a1, by rw [← heq]; exact a2⟩

/-- **C13LazyRefine, all five calls (animation whose `IDAT` image is not part of the animation).** -/
theorem apng_default_exact_refines_eager_all (cfg : Cfg) (hI : cfg.InflateOk) (hC : cfg.CrcOk) {t : TCfg} {f : Flags}
    (ht : t.IsIdentity f) (hto : t.Ok) (hts : CreateSafe t) (opts : Options) (limit : Nat) (h : Header) (hv : h.Valid)
    (plays : Nat) (hplays : plays < 2 ^ 32) (anc : List (ChunkType × Bytes)) (dAnc : Dec)
    (frames : List (FrameControl × List Bytes × Bytes)) (hnf : frames.length < 2 ^ 32)
    (hanc : AncChunksG cfg (actlAfter (afterIhdr cfg opts limit h) frames.length plays) anc dAnc) (hna : NoActl anc)
    (zs0 : List Bytes) (raw0 : Bytes)
    (hzs0 : zs0 ≠ []) (hlen0 : ∀ z ∈ zs0, z.length < 2 ^ 32) (hinf0 : cfg.inflate zs0.flatten = some (raw0, true))
    (hraw0 : RawOk h raw0) (hframes : ∀ fr ∈ frames, FrameOk cfg h fr)
    (hseq : (frames.map fun x => 1 + x.2.1.length).sum < 2 ^ 32)
    (hsize : h.lineSize * h.height < 2 ^ 64)
    (hlimit : h.lineSize + (frames.map fun x => (h.frame x.1).lineSize).sum ≤ dAnc.limit)
    (hfl : (wellFormedApngDefault cfg h plays anc zs0 (framesOf frames)).length < 2 ^ 32) :
    ∃ (r0 : R) (s0 : Lazy.St),
      Reader.step cfg t (R.init opts limit f (wellFormedApngDefault cfg h plays anc zs0 (framesOf frames))
        (wellFormedApngDefault cfg h plays anc zs0 (framesOf frames)).length) .readInfo = (r0, .header) ∧
      C04Lazy.Start (eagerAbsEnv h h raw0 frames) r0.remaining s0 ∧
      ∀ ops : List Reader.Op, (∀ op ∈ ops, isCall op = true) →
        (∀ res ∈ (Reader.run cfg t r0 ops).2, okRes res = true) ∧
        resMatchAll (geomOf h h frames) (Reader.run cfg t r0 ops).2
          (Lazy.run (eagerAbsEnv h h raw0 frames) s0 (absOps ops)).2 = true := by
  obtain ⟨r0, arrs, s0, h1, h2, h3, hl0, h4, h5⟩ :=
    apng_default_exact_all cfg hI hC ht hto hts opts limit h hv plays hplays anc dAnc frames hnf hanc hna zs0 raw0 hzs0
      hlen0 hinf0 hraw0 hframes hseq hsize hlimit hfl
  obtain ⟨s0', hi', heq⟩ := to_eager h h raw0 frames arrs r0.remaining s0 h3 (by omega) hl0 h4
  refine ⟨r0, s0', h1, ⟨eagerAbsEnv_valid h h raw0 frames, by omega, hi'⟩, fun ops hops => ?_⟩
  obtain ⟨a1, a2⟩ := h5 ops hops
  exact ⟨a1, by rw [← heq]; exact a2⟩

/-! ## 3. The row accounting of the byte-level model -/

/-- **the row accounting for the byte-level model on a well-formed animation whose first frame is the `IDAT` image**: for
    every call sequence the results are matched by `Lazy` results `ls` with the properties of `lazy_rows_exact` (the
    frames never go back; the row-units handed out for each frame are `0, 1, …, d-1` without gap or repetition; a
    successful `next_frame` completes its frame; no row-unit is handed out that the frame's data does not cover; no
    panic) -/
theorem apng_rows_exact (cfg : Cfg) (hI : cfg.InflateOk) (hC : cfg.CrcOk) {t : TCfg} {f : Flags}
    (ht : t.IsIdentity f) (hts : CreateSafe t) (opts : Options) (limit : Nat) (h : Header) (hv : h.Valid) (plays : Nat)
    (hplays : plays < 2 ^ 32) (anc : List (ChunkType × Bytes)) (dAnc : Dec)
    (frames : List (FrameControl × List Bytes × Bytes)) (hnf : frames.length + 1 < 2 ^ 32)
    (hanc : AncChunksG cfg (actlAfter (afterIhdr cfg opts limit h) (frames.length + 1) plays) anc dAnc) (hna : NoActl anc)
    (fc0 : FrameControl) (zs0 : List Bytes) (raw0 : Bytes) (hfc0 : FcOk h fc0)
    (hzs0 : zs0 ≠ []) (hlen0 : ∀ z ∈ zs0, z.length < 2 ^ 32) (hinf0 : cfg.inflate zs0.flatten = some (raw0, true))
    (hraw0 : RawOk (h.frame fc0) raw0) (hframes : ∀ fr ∈ frames, FrameOk cfg h fr)
    (hseq : 1 + (frames.map fun x => 1 + x.2.1.length).sum < 2 ^ 32)
    (hsize : h.lineSize * h.height < 2 ^ 64)
    (hlimit : (h.frame fc0).lineSize + (frames.map fun x => (h.frame x.1).lineSize).sum ≤ dAnc.limit) :
    ∃ r0 : R, Reader.step cfg t (R.init opts limit f (wellFormedApng cfg h plays anc fc0 zs0 (framesOf frames))
        (wellFormedApng cfg h plays anc fc0 zs0 (framesOf frames)).length) .readInfo = (r0, .header) ∧
      ∀ ops : List Reader.Op, (∀ op ∈ ops, isCall' op = true) →
        ∃ ls : List Lazy.Res, resMatchAll (geomOf h (h.frame fc0) frames) (Reader.run cfg t r0 ops).2 ls = true ∧
          (ls.filterMap Lazy.frameOf).Pairwise (· ≤ ·) ∧
          (∀ k, ∃ d, d ≤ Lazy.rowsLen (absFile h (h.frame fc0) raw0 frames) k ∧ Lazy.delivered k ls = List.range d) ∧
          (∀ p k w, ls[p]? = some (.frame k w) →
            Lazy.delivered k (ls.take (p + 1)) = List.range (Lazy.rowsLen (absFile h (h.frame fc0) raw0 frames) k)) ∧
          (∀ l ∈ ls, Lazy.Backed (absFile h (h.frame fc0) raw0 frames) l) ∧ (∀ l ∈ ls, ∀ site, l ≠ .panic site) := by
  obtain ⟨r0, arrs, s0, h1, hS, _, h5⟩ :=
    apng_exact_refines_lazy cfg hI hC ht hts opts limit h hv plays hplays anc dAnc frames hnf hanc hna fc0 zs0 raw0 hfc0 hzs0
      hlen0 hinf0 hraw0 hframes hseq hsize hlimit
  exact ⟨r0, h1, fun ops hops => rows_exact_transfers _ _ _ s0 hS (absOps ops) _ (h5 ops hops).2⟩

/-- **the row accounting for the byte-level model on a well-formed animation whose `IDAT` image is not part of the
    animation** (frame 0 of the accounting is the default image) -/
theorem apng_default_rows_exact (cfg : Cfg) (hI : cfg.InflateOk) (hC : cfg.CrcOk) {t : TCfg} {f : Flags}
    (ht : t.IsIdentity f) (hts : CreateSafe t) (opts : Options) (limit : Nat) (h : Header) (hv : h.Valid) (plays : Nat)
    (hplays : plays < 2 ^ 32) (anc : List (ChunkType × Bytes)) (dAnc : Dec)
    (frames : List (FrameControl × List Bytes × Bytes)) (hnf : frames.length < 2 ^ 32)
    (hanc : AncChunksG cfg (actlAfter (afterIhdr cfg opts limit h) frames.length plays) anc dAnc) (hna : NoActl anc)
    (zs0 : List Bytes) (raw0 : Bytes)
    (hzs0 : zs0 ≠ []) (hlen0 : ∀ z ∈ zs0, z.length < 2 ^ 32) (hinf0 : cfg.inflate zs0.flatten = some (raw0, true))
    (hraw0 : RawOk h raw0) (hframes : ∀ fr ∈ frames, FrameOk cfg h fr)
    (hseq : (frames.map fun x => 1 + x.2.1.length).sum < 2 ^ 32)
    (hsize : h.lineSize * h.height < 2 ^ 64)
    (hlimit : h.lineSize + (frames.map fun x => (h.frame x.1).lineSize).sum ≤ dAnc.limit) :
    ∃ r0 : R, Reader.step cfg t (R.init opts limit f (wellFormedApngDefault cfg h plays anc zs0 (framesOf frames))
        (wellFormedApngDefault cfg h plays anc zs0 (framesOf frames)).length) .readInfo = (r0, .header) ∧
      ∀ ops : List Reader.Op, (∀ op ∈ ops, isCall' op = true) →
        ∃ ls : List Lazy.Res, resMatchAll (geomOf h h frames) (Reader.run cfg t r0 ops).2 ls = true ∧
          (ls.filterMap Lazy.frameOf).Pairwise (· ≤ ·) ∧
          (∀ k, ∃ d, d ≤ Lazy.rowsLen (absFile h h raw0 frames) k ∧ Lazy.delivered k ls = List.range d) ∧
          (∀ p k w, ls[p]? = some (.frame k w) →
            Lazy.delivered k (ls.take (p + 1)) = List.range (Lazy.rowsLen (absFile h h raw0 frames) k)) ∧
          (∀ l ∈ ls, Lazy.Backed (absFile h h raw0 frames) l) ∧ (∀ l ∈ ls, ∀ site, l ≠ .panic site) := by
  obtain ⟨r0, arrs, s0, h1, hS, _, h5⟩ :=
    apng_default_exact_refines_lazy cfg hI hC ht hts opts limit h hv plays hplays anc dAnc frames hnf hanc hna zs0 raw0 hzs0
      hlen0 hinf0 hraw0 hframes hseq hsize hlimit
  exact ⟨r0, h1, fun ops hops => rows_exact_transfers _ _ _ s0 hS (absOps ops) _ (h5 ops hops).2⟩

/-- **the row accounting for the byte-level model on a well-formed still image with accepted chunks behind the image
    data** -/
theorem still_post_rows_exact (cfg : Cfg) (hI : cfg.InflateOk) (hC : cfg.CrcOk) {t : TCfg} {f : Flags}
    (ht : t.IsIdentity f) (hts : CreateSafe t) (opts : Options) (limit : Nat) (h : Header) (hv : h.Valid)
    (cs : List (ChunkType × Bytes)) (dA : Dec)
    (hcs : AncChunksG cfg (afterIhdr cfg opts limit h) cs dA) (hna : NoActl cs)
    (zs : List Bytes) (raw : Bytes) (hzs : zs ≠ []) (hlen : ∀ z ∈ zs, z.length < 2 ^ 32)
    (hinf : cfg.inflate zs.flatten = some (raw, true)) (hraw : RawOk h raw)
    (post : List (ChunkType × Bytes)) (hpost : PostAccepted cfg dA h.lineSize post)
    (hsize : h.lineSize * h.height < 2 ^ 64) (hlimit : h.lineSize ≤ dA.limit) :
    ∃ r0 : R, Reader.step cfg t (R.init opts limit f (wellFormedStill cfg h cs zs post)
        (wellFormedStill cfg h cs zs post).length) .readInfo = (r0, .header) ∧
      ∀ ops : List Reader.Op, (∀ op ∈ ops, isCall' op = true) →
        ∃ ls : List Lazy.Res, resMatchAll (geomOf h h []) (Reader.run cfg t r0 ops).2 ls = true ∧
          (ls.filterMap Lazy.frameOf).Pairwise (· ≤ ·) ∧
          (∀ k, ∃ d, d ≤ Lazy.rowsLen (absFile h h raw []) k ∧ Lazy.delivered k ls = List.range d) ∧
          (∀ p k w, ls[p]? = some (.frame k w) →
            Lazy.delivered k (ls.take (p + 1)) = List.range (Lazy.rowsLen (absFile h h raw []) k)) ∧
          (∀ l ∈ ls, Lazy.Backed (absFile h h raw []) l) ∧ (∀ l ∈ ls, ∀ site, l ≠ .panic site) := by
  obtain ⟨r0, arrs, s0, h1, hS, _, h5⟩ :=
    still_post_exact_refines_lazy cfg hI hC ht hts opts limit h hv cs dA hcs hna zs raw hzs hlen hinf hraw post hpost
      hsize hlimit
  exact ⟨r0, h1, fun ops hops => rows_exact_transfers _ _ _ s0 hS (absOps ops) _ (h5 ops hops).2⟩

/-! ## 4. Toy files: non-vacuity of the hypotheses, and both models run on the same calls -/

/-- a chunk type `parse_chunk` does not know (`prVt`) -/
def prVt : ChunkType := be32 112 114 86 116

/-- two private chunks behind the image data of the toy still image -/
def postG : List (ChunkType × Bytes) := [(prVt, [1, 2, 3]), (prVt, [])]

theorem postG_accepted (ls : Nat) : PostAccepted toyCfg (afterIhdr toyCfg {} (2 ^ 64 - 1) hG) ls postG :=
  post_unknown_accepted _ _ _ _ (by decide +kernel)

/-- **the hypotheses of `still_post_exact_refines_eager_all` hold for the toy still image followed by two private chunks**:
    the theorem's instance -/
example : ∃ (r0 : R) (s0 : Lazy.St),
    Reader.step toyCfg idT (R.init {} (2 ^ 64 - 1) {} (wellFormedStill toyCfg hG [] zsG postG)
      (wellFormedStill toyCfg hG [] zsG postG).length) .readInfo = (r0, .header) ∧
    C04Lazy.Start (eagerAbsEnv hG hG rawG []) r0.remaining s0 ∧
    ∀ ops : List Reader.Op, (∀ op ∈ ops, isCall op = true) →
      (∀ res ∈ (Reader.run toyCfg idT r0 ops).2, okRes res = true) ∧
      resMatchAll (geomOf hG hG []) (Reader.run toyCfg idT r0 ops).2
        (Lazy.run (eagerAbsEnv hG hG rawG []) s0 (absOps ops)).2 = true :=
  still_post_exact_refines_eager_all toyCfg toy_inflateOk toy_crcOk idT_isIdentity idT_ok idT_createSafe {} (2 ^ 64 - 1) hG
    (by decide) [] _ (.nil _) (fun _ h => by cases h) zsG rawG (by decide) (by decide) (by decide) (by decide)
    postG (postG_accepted _) (by decide) (by decide) (by decide)

/-- ... and of `still_post_exact_refines_eager` and `still_post_rows_exact` -/
example : ∃ (r0 : R) (s0 : Lazy.St),
    Reader.step toyCfg idT (R.init {} (2 ^ 64 - 1) {} (wellFormedStill toyCfg hG [] zsG postG)
      (wellFormedStill toyCfg hG [] zsG postG).length) .readInfo = (r0, .header) ∧
    C04Lazy.Start (eagerAbsEnv hG hG rawG []) r0.remaining s0 ∧
    ∀ ops : List Reader.Op, (∀ op ∈ ops, isCall' op = true) →
      (∀ res ∈ (Reader.run toyCfg idT r0 ops).2, okRes res = true) ∧
      resMatchAll (geomOf hG hG []) (Reader.run toyCfg idT r0 ops).2
        (Lazy.run (eagerAbsEnv hG hG rawG []) s0 (absOps ops)).2 = true :=
  still_post_exact_refines_eager toyCfg toy_inflateOk toy_crcOk idT_isIdentity idT_createSafe {} (2 ^ 64 - 1) hG
    (by decide) [] _ (.nil _) (fun _ h => by cases h) zsG rawG (by decide) (by decide) (by decide) (by decide)
    postG (postG_accepted _) (by decide) (by decide)

example : ∃ r0 : R, Reader.step toyCfg idT (R.init {} (2 ^ 64 - 1) {} (wellFormedStill toyCfg hG [] zsG postG)
      (wellFormedStill toyCfg hG [] zsG postG).length) .readInfo = (r0, .header) ∧
    ∀ ops : List Reader.Op, (∀ op ∈ ops, isCall' op = true) →
      ∃ ls : List Lazy.Res, resMatchAll (geomOf hG hG []) (Reader.run toyCfg idT r0 ops).2 ls = true ∧
        (ls.filterMap Lazy.frameOf).Pairwise (· ≤ ·) ∧
        (∀ k, ∃ d, d ≤ Lazy.rowsLen (absFile hG hG rawG []) k ∧ Lazy.delivered k ls = List.range d) ∧
        (∀ p k w, ls[p]? = some (.frame k w) →
          Lazy.delivered k (ls.take (p + 1)) = List.range (Lazy.rowsLen (absFile hG hG rawG []) k)) ∧
        (∀ l ∈ ls, Lazy.Backed (absFile hG hG rawG []) l) ∧ (∀ l ∈ ls, ∀ site, l ≠ .panic site) :=
  still_post_rows_exact toyCfg toy_inflateOk toy_crcOk idT_isIdentity idT_createSafe {} (2 ^ 64 - 1) hG
    (by decide) [] _ (.nil _) (fun _ h => by cases h) zsG rawG (by decide) (by decide) (by decide) (by decide)
    postG (postG_accepted _) (by decide) (by decide)

/-- a `tEXt` chunk (`"k"`, `"v"`) behind the image data of the toy still image is accepted as well -/
example : PostAccepted toyCfg (afterIhdr toyCfg {} (2 ^ 64 - 1) hG) hG.lineSize [(tEXt, [107] ++ 0 :: [118])] :=
  post_tEXt_accepted _ _ _ [107] [118] (by decide) ⟨by decide, by decide, by decide⟩ (by decide) (by decide) (by decide) (by decide)

/-- both models on this file: `finish` reads through the two chunks to `IEND` -/
example : agree toyCfg idT (geomOf hG hG []) envG (rGp postG)
    [.nextRow, .readRow, .nextFrameInfo, .finish, .finish, .nextRow, .nextFrame 0] = true := by decide +kernel
example : agree toyCfg idT (geomOf hG hG []) envG (rGp postG) [.nextFrame 3, .nextFrame 3, .finish] = true := by
  decide +kernel

/-- the toy animation with a default image: 2×2, the `IDAT` image `raw0P`, one frame of the animation (`frP`, numbers 0, 1) -/
def zsP : List Bytes := [[6, 0, 1, 2, 2, 1, 1]]
def rawP : Bytes := [0, 1, 2, 2, 1, 1]
def fileD : Bytes := wellFormedApngDefault toyCfg hP 0 [] zsP (framesOf frP)
def rD : R := (Reader.step toyCfg idT (R.init {} (2 ^ 64 - 1) {} fileD fileD.length) .readInfo).1

theorem frP_ok : ∀ fr ∈ frP, FrameOk toyCfg hP fr := by
  intro fr hfr
  simp only [frP, List.mem_cons, List.mem_nil_iff, or_false] at hfr
  subst hfr
  exact ⟨⟨by decide, by decide, by decide, by decide, by decide, by decide, by decide, by decide⟩, by decide, by decide,
    by decide, by decide⟩

/-- **the hypotheses of `apng_default_exact_refines_eager_all` hold for the toy animation with a default image** -/
example : ∃ (r0 : R) (s0 : Lazy.St),
    Reader.step toyCfg idT (R.init {} (2 ^ 64 - 1) {} (wellFormedApngDefault toyCfg hP 0 [] zsP (framesOf frP))
      (wellFormedApngDefault toyCfg hP 0 [] zsP (framesOf frP)).length) .readInfo = (r0, .header) ∧
    C04Lazy.Start (eagerAbsEnv hP hP rawP frP) r0.remaining s0 ∧
    ∀ ops : List Reader.Op, (∀ op ∈ ops, isCall op = true) →
      (∀ res ∈ (Reader.run toyCfg idT r0 ops).2, okRes res = true) ∧
      resMatchAll (geomOf hP hP frP) (Reader.run toyCfg idT r0 ops).2
        (Lazy.run (eagerAbsEnv hP hP rawP frP) s0 (absOps ops)).2 = true :=
  apng_default_exact_refines_eager_all toyCfg toy_inflateOk toy_crcOk idT_isIdentity idT_ok idT_createSafe {} (2 ^ 64 - 1) hP
    (by decide) 0 (by decide) [] _ frP (by decide) (.nil _) (fun _ h => by cases h) zsP rawP (by decide) (by decide)
    (by decide) (by decide) frP_ok (by decide) (by decide) (by decide) (by decide +kernel)

/-- ... and of `apng_default_exact_refines_eager` -/
example : ∃ (r0 : R) (s0 : Lazy.St),
    Reader.step toyCfg idT (R.init {} (2 ^ 64 - 1) {} (wellFormedApngDefault toyCfg hP 0 [] zsP (framesOf frP))
      (wellFormedApngDefault toyCfg hP 0 [] zsP (framesOf frP)).length) .readInfo = (r0, .header) ∧
    C04Lazy.Start (eagerAbsEnv hP hP rawP frP) r0.remaining s0 ∧
    ∀ ops : List Reader.Op, (∀ op ∈ ops, isCall' op = true) →
      (∀ res ∈ (Reader.run toyCfg idT r0 ops).2, okRes res = true) ∧
      resMatchAll (geomOf hP hP frP) (Reader.run toyCfg idT r0 ops).2
        (Lazy.run (eagerAbsEnv hP hP rawP frP) s0 (absOps ops)).2 = true :=
  apng_default_exact_refines_eager toyCfg toy_inflateOk toy_crcOk idT_isIdentity idT_createSafe {} (2 ^ 64 - 1) hP
    (by decide) 0 (by decide) [] _ frP (by decide) (.nil _) (fun _ h => by cases h) zsP rawP (by decide) (by decide)
    (by decide) (by decide) frP_ok (by decide) (by decide) (by decide)

set_option maxRecDepth 8192 in
/-- the abstraction of this file: two frames of two row-units each; `remaining_frames = 2` -/
example : (eagerAbsEnv hP hP rawP frP).frames = [⟨[3, 3], 6⟩, ⟨[3, 3], 6⟩] ∧ rD.remaining = 2 := by decide +kernel

set_option maxRecDepth 8192 in
/-- both models on this file -/
example : agree toyCfg idT (geomOf hP hP frP) (eagerAbsEnv hP hP rawP frP) rD
    [.nextRow, .nextFrameInfo, .readRow, .nextFrame 0, .nextFrame 0, .nextFrameInfo, .finish] = true := by decide +kernel
set_option maxRecDepth 8192 in
example : agree toyCfg idT (geomOf hP hP frP) (eagerAbsEnv hP hP rawP frP) rD
    [.nextFrame 0, .nextRow, .nextFrame 0, .nextRow, .nextRow, .finish, .nextFrame 0] = true := by decide +kernel

/-- **the hypotheses of `apng_default_rows_exact` hold for the toy animation with a default image** -/
example : ∃ r0 : R, Reader.step toyCfg idT (R.init {} (2 ^ 64 - 1) {} (wellFormedApngDefault toyCfg hP 0 [] zsP (framesOf frP))
      (wellFormedApngDefault toyCfg hP 0 [] zsP (framesOf frP)).length) .readInfo = (r0, .header) ∧
    ∀ ops : List Reader.Op, (∀ op ∈ ops, isCall' op = true) →
      ∃ ls : List Lazy.Res, resMatchAll (geomOf hP hP frP) (Reader.run toyCfg idT r0 ops).2 ls = true ∧
        (ls.filterMap Lazy.frameOf).Pairwise (· ≤ ·) ∧
        (∀ k, ∃ d, d ≤ Lazy.rowsLen (absFile hP hP rawP frP) k ∧ Lazy.delivered k ls = List.range d) ∧
        (∀ p k w, ls[p]? = some (.frame k w) →
          Lazy.delivered k (ls.take (p + 1)) = List.range (Lazy.rowsLen (absFile hP hP rawP frP) k)) ∧
        (∀ l ∈ ls, Lazy.Backed (absFile hP hP rawP frP) l) ∧ (∀ l ∈ ls, ∀ site, l ≠ .panic site) :=
  apng_default_rows_exact toyCfg toy_inflateOk toy_crcOk idT_isIdentity idT_createSafe {} (2 ^ 64 - 1) hP
    (by decide) 0 (by decide) [] _ frP (by decide) (.nil _) (fun _ h => by cases h) zsP rawP (by decide) (by decide)
    (by decide) (by decide) frP_ok (by decide) (by decide) (by decide)

/-- **the hypotheses of `apng_rows_exact` hold for a toy animation whose first frame is the `IDAT` image** (2×2, two
    frames: `apng2` of `Proofs/ReaderPathsToy.lean` up to the delay fields of the frame controls) -/
example : ∃ r0 : R, Reader.step toyCfg idT (R.init {} (2 ^ 64 - 1) {} (wellFormedApng toyCfg hP 0 [] fcP zsP (framesOf frP))
      (wellFormedApng toyCfg hP 0 [] fcP zsP (framesOf frP)).length) .readInfo = (r0, .header) ∧
    ∀ ops : List Reader.Op, (∀ op ∈ ops, isCall' op = true) →
      ∃ ls : List Lazy.Res, resMatchAll (geomOf hP (hP.frame fcP) frP) (Reader.run toyCfg idT r0 ops).2 ls = true ∧
        (ls.filterMap Lazy.frameOf).Pairwise (· ≤ ·) ∧
        (∀ k, ∃ d, d ≤ Lazy.rowsLen (absFile hP (hP.frame fcP) rawP frP) k ∧ Lazy.delivered k ls = List.range d) ∧
        (∀ p k w, ls[p]? = some (.frame k w) →
          Lazy.delivered k (ls.take (p + 1)) = List.range (Lazy.rowsLen (absFile hP (hP.frame fcP) rawP frP) k)) ∧
        (∀ l ∈ ls, Lazy.Backed (absFile hP (hP.frame fcP) rawP frP) l) ∧ (∀ l ∈ ls, ∀ site, l ≠ .panic site) :=
  apng_rows_exact toyCfg toy_inflateOk toy_crcOk idT_isIdentity idT_createSafe {} (2 ^ 64 - 1) hP
    (by decide) 0 (by decide) [] _ frP (by decide) (.nil _) (fun _ h => by cases h) fcP zsP rawP
    ⟨by decide, by decide, by decide, by decide, by decide, by decide, by decide, by decide⟩ (by decide) (by decide)
    (by decide) (by decide) frP_ok (by decide) (by decide) (by decide)

end Png.C13LazyRefine
