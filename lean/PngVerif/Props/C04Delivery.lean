import PngVerif.Props.C01Decode
import PngVerif.Props.C09
import PngVerif.Proofs.Delivery
import PngVerif.Proofs.ReaderToyLate
/-!
# C04 / C05 ∘ C01 / C09 — a well-formed image decodes to the specification's pixels under ANY delivery of its bytes

`Props/C01Decode.lean` (`C01_decode`, `C01_decode_rows`) and `Props/C09.lean` (`C09_frames`, `C09_default_image`) say what
the `Reader` model returns on a well-formed still image / animation ALL of whose bytes are visible when the `Decoder` is
created.  `Props/C05.lean` (`C05_resume_from_start`) says that a caller who sees only a prefix, and who repeats every call
that ran out of input after the next growth step of an ARBITRARY schedule (`Reader.resumeRun`), obtains the results of the
run that saw everything.  This file composes them.  Property theorems only; the glue is `Proofs/Delivery.lean`.

The setting of every theorem: `file` is the byte stream of the C01 / C09 theorem; `v ≤ file.length` is ANY number of bytes
visible when `read_info` is called, such that `read_info` succeeds on them (it returns the `Reader` `r0`; `read_info(self)`
consumes the `Decoder`, so a failed `read_info` cannot be retried — `Props/C05.lean`); `sched : List Nat` is ANY growth
schedule (after a call ran out of input the next `g` bytes of the schedule become visible and the call is repeated).

* schedule delivers the whole file (`file.length ≤ v + sched.sum`): the retrying caller's results are EXACTLY the frame(s)
  / rows the specification prescribes (`C01_any_delivery`, `C01_rows_any_delivery`, `C09_any_delivery`,
  `C09_default_image_any_delivery`), with `read_info` included: the whole session equals the session on the complete
  file (`C01_any_delivery_from_start`);
* ANY schedule, also one that stops early: the results are a PREFIX of them — no wrong pixel is ever handed out
  (`C01_any_delivery_prefix`, `C01_rows_any_delivery_prefix`, `C09_any_delivery_prefix`);
* animations with the final refused call (`PolledAfterEndOfImage` is not a successful result, so the comparison of C05 ends
  before it: `C05_resume_until_failure`): the results on all calls BEGIN with the frames (`C09_any_delivery_until_refusal`);
  that the retrying caller's last result is the refusal too is stated (`C09_any_delivery_with_refusal_statement`), true on
  the examples, and proved later in Props/C04DeliveryEnd.lean (C09_any_delivery_with_refusal); at the time of this file not proved — its doc comment names the two missing lemmas.

Hypotheses beyond those of the C01 / C09 theorems:
* `file.length < 2^32` (the model's `Decoder` invariant `PreInv`, `rinv_init`);
* the contracts of C05 on the row transformation, `TCfg.Ok` and `TCfg.Stable`, in the form `TCfg.ResumeOk`: `t` agrees on
  every `Info` a stream can produce with a transformation that satisfies both (`contracts_suffice`).  They do NOT follow
  from `TCfg.IsIdentity f`, which speaks about the one flag set `f` while the two contracts quantify over all flag sets
  (`identity_contract_does_not_imply_contracts`).  They hold for the toy identity `idT` (`idT_ok`, `idT_stable`).  For the
  transformation the executable model runs, `Driver.realT`, `TCfg.Ok` is false as stated (`TContract.realT_not_ok`, a gap
  of the contract on an unreachable `Info`) but `ResumeOk` holds (`Driver.realT_resumeOk`): the `…_real` theorems are
  about `Driver.realT` itself with `Transformations::IDENTITY` and carry NO hypothesis about the transformation.
-/
namespace Png.C04Delivery
open Png Png.Framing Png.Reader Png.WellFormed

/-! ## The hypothesis on the row transformation -/

/-- `TCfg.Ok` and `TCfg.Stable` (the contracts `Png.C05` assumes) give `TCfg.ResumeOk` -/
theorem contracts_suffice (t : TCfg) (hOk : t.Ok) (hSt : t.Stable) : t.ResumeOk := .of_contracts hOk hSt

/-- the transformation the executable model runs satisfies it (although `TCfg.Ok` is false for it as stated) and is the
    identity for `Transformations::IDENTITY` -/
theorem realT_qualifies : Driver.realT.ResumeOk ∧ Driver.realT.IsIdentity {} :=
  ⟨Driver.realT_resumeOk, Driver.realT_isIdentity⟩

/-- a transformation that is the identity without flags and arbitrary under `EXPAND` -/
def oddT : TCfg where
  outColorDepth := fun i f => if f.expand then (if i.palette.isSome then 7 else 9, 0) else (i.color, i.depth)
  create := fun _ _ => .ok ()
  apply := fun _ _ _ row _ => some row

/-- **the identity contract for one flag set implies neither contract of C05** (they quantify over all flag sets): hence
    the explicit hypothesis `ResumeOk` below -/
theorem identity_contract_does_not_imply_contracts : oddT.IsIdentity {} ∧ ¬ oddT.Ok ∧ ¬ oddT.Stable := by
  refine ⟨⟨fun _ => rfl, fun _ _ => rfl, fun _ _ _ _ _ => rfl⟩, fun hOk => ?_, fun hSt => ?_⟩
  · have := hOk.outLegal ⟨1, 1, 8, 0, false, none, none, none, none, none, none, none, none, none, none, none, none, none, none,
      none, []⟩ { expand := true } ⟨by decide, by decide, by decide⟩
    revert this; decide
  · have := hSt
      ⟨1, 1, 8, 3, false, none, none, none, none, none, none, none, none, none, none, none, none, none, none, none, []⟩
      ⟨1, 1, 8, 3, false, some [], none, none, none, none, none, none, none, none, none, none, none, none, none, none, []⟩
      { expand := true } rfl rfl
    revert this; decide

/-! ## C01: still images, `next_frame` -/

/-- **C01 under any delivery.**  Hypotheses of `C01.C01_decode` (any inflater / CRC function satisfying their contracts,
    identity row transformation, valid header, chunks `anc` before the image data, any cut `zs` of the zlib stream into
    `IDAT` chunks, every filter assignment, chunks `post` behind, the two size checks), the contracts of C05 on the
    transformation, a file shorter than 4 GiB.  `read_info` succeeds on the first `v` bytes; the schedule delivers the
    rest in any pieces.  Then the caller who repeats `next_frame` whenever it runs out of input obtains exactly one
    result: the header's `OutputInfo` and the buffer `specPixels h raw`. -/
theorem C01_any_delivery (cfg : Cfg) (t : TCfg) (f : Flags) (opts : Options) (limit : Nat) (h : Header) (anc : Bytes)
    (dA : Dec) (zs : List Bytes) (raw : Bytes) (post : List (ChunkType × Bytes)) (p : UInt8)
    (hI : cfg.InflateOk) (hC : cfg.CrcOk) (ht : t.IsIdentity f) (hT : t.ResumeOk) (hv : h.Valid)
    (hanc : AncTrace cfg (afterIhdr cfg opts limit h) anc dA) (hidle : Idle dA h.info.core)
    (hzs : zs ≠ []) (hlen : ∀ z ∈ zs, z.length < 2 ^ 32) (hinf : cfg.inflate zs.flatten = some (raw, true))
    (hraw : RawOk h raw) (hpost : ∀ c ∈ post, c.1 ≠ IDAT ∧ c.1 < 2 ^ 32 ∧ c.2.length < 2 ^ 32)
    (hsize : h.lineSize * h.height < 2 ^ 64) (hlimit : h.lineSize ≤ dA.limit)
    (h32 : (stillBytes cfg h anc zs post).length < 2 ^ 32)
    (v : Nat) (hvis : v ≤ (stillBytes cfg h anc zs post).length) (r0 : R)
    (hri : step cfg t (R.init opts limit f (stillBytes cfg h anc zs post) v) .readInfo = (r0, .header))
    (sched : List Nat) (hs : (stillBytes cfg h anc zs post).length ≤ v + sched.sum) :
    ∃ buf,
      resumeRun cfg t (stillBytes cfg h anc zs post).length sched [.nextFrame p] r0 =
        [.frame { width := h.width, height := h.height, color := h.color, depth := h.depth, lineSize := h.lineSize } buf] ∧
      specPixels h raw (List.replicate h.bufferSize p) = some buf ∧ buf.length = h.bufferSize := by
  obtain ⟨buf, hrun, hspec, hbl⟩ := C01.C01_decode cfg t f opts limit h anc dA zs raw post p hI hC ht hv hanc hidle hzs hlen
    hinf hraw hpost hsize hlimit
  obtain ⟨ys, h1, h2⟩ := delivery_from_start' cfg hI hT opts limit f (stillBytes cfg h anc zs post) h32 v hvis r0 hri
    [.nextFrame p] (isCall_nextFrame p) sched _ hrun (good_frame _ buf)
  refine ⟨buf, ?_, hspec, hbl⟩
  rw [h2 hs, List.append_nil] at h1
  exact h1.symm

/-- **… `read_info` included**: the whole session of the retrying caller — `read_info` on the first `v` bytes, then
    `next_frame` repeated under any schedule that delivers the file — returns what the session on the complete file
    returns (which is what `C01.C01_decode` describes) -/
theorem C01_any_delivery_from_start (cfg : Cfg) (t : TCfg) (f : Flags) (opts : Options) (limit : Nat) (h : Header) (anc : Bytes)
    (dA : Dec) (zs : List Bytes) (raw : Bytes) (post : List (ChunkType × Bytes)) (p : UInt8)
    (hI : cfg.InflateOk) (hC : cfg.CrcOk) (ht : t.IsIdentity f) (hT : t.ResumeOk) (hv : h.Valid)
    (hanc : AncTrace cfg (afterIhdr cfg opts limit h) anc dA) (hidle : Idle dA h.info.core)
    (hzs : zs ≠ []) (hlen : ∀ z ∈ zs, z.length < 2 ^ 32) (hinf : cfg.inflate zs.flatten = some (raw, true))
    (hraw : RawOk h raw) (hpost : ∀ c ∈ post, c.1 ≠ IDAT ∧ c.1 < 2 ^ 32 ∧ c.2.length < 2 ^ 32)
    (hsize : h.lineSize * h.height < 2 ^ 64) (hlimit : h.lineSize ≤ dA.limit)
    (h32 : (stillBytes cfg h anc zs post).length < 2 ^ 32)
    (v : Nat) (hvis : v ≤ (stillBytes cfg h anc zs post).length)
    (hri : (step cfg t (R.init opts limit f (stillBytes cfg h anc zs post) v) .readInfo).2 = .header)
    (sched : List Nat) (hs : (stillBytes cfg h anc zs post).length ≤ v + sched.sum) :
    (step cfg t (R.init opts limit f (stillBytes cfg h anc zs post) v) .readInfo).2 ::
      resumeRun cfg t (stillBytes cfg h anc zs post).length sched [.nextFrame p]
        (step cfg t (R.init opts limit f (stillBytes cfg h anc zs post) v) .readInfo).1 =
    (run cfg t (R.init opts limit f (stillBytes cfg h anc zs post) (stillBytes cfg h anc zs post).length)
      [.readInfo, .nextFrame p]).2 := by
  obtain ⟨buf, hrun, _, _⟩ := C01.C01_decode cfg t f opts limit h anc dA zs raw post p hI hC ht hv hanc hidle hzs hlen hinf hraw
    hpost hsize hlimit
  have hrun' : (run cfg t (R.init opts limit f (stillBytes cfg h anc zs post) (stillBytes cfg h anc zs post).length)
      [.readInfo, .nextFrame p]).2 = _ := hrun
  obtain ⟨ys, h1, h2⟩ := delivery_from_start' cfg hI hT opts limit f (stillBytes cfg h anc zs post) h32 v hvis _
    (Prod.ext rfl hri) [.nextFrame p] (isCall_nextFrame p) sched _ hrun (good_frame _ buf)
  rw [h2 hs, List.append_nil] at h1
  rw [hrun', hri, ← h1]

/-- **… and under a schedule that need NOT deliver everything**: the retrying caller has obtained nothing yet, or exactly
    the specification's frame — never anything else -/
theorem C01_any_delivery_prefix (cfg : Cfg) (t : TCfg) (f : Flags) (opts : Options) (limit : Nat) (h : Header) (anc : Bytes)
    (dA : Dec) (zs : List Bytes) (raw : Bytes) (post : List (ChunkType × Bytes)) (p : UInt8)
    (hI : cfg.InflateOk) (hC : cfg.CrcOk) (ht : t.IsIdentity f) (hT : t.ResumeOk) (hv : h.Valid)
    (hanc : AncTrace cfg (afterIhdr cfg opts limit h) anc dA) (hidle : Idle dA h.info.core)
    (hzs : zs ≠ []) (hlen : ∀ z ∈ zs, z.length < 2 ^ 32) (hinf : cfg.inflate zs.flatten = some (raw, true))
    (hraw : RawOk h raw) (hpost : ∀ c ∈ post, c.1 ≠ IDAT ∧ c.1 < 2 ^ 32 ∧ c.2.length < 2 ^ 32)
    (hsize : h.lineSize * h.height < 2 ^ 64) (hlimit : h.lineSize ≤ dA.limit)
    (h32 : (stillBytes cfg h anc zs post).length < 2 ^ 32)
    (v : Nat) (hvis : v ≤ (stillBytes cfg h anc zs post).length) (r0 : R)
    (hri : step cfg t (R.init opts limit f (stillBytes cfg h anc zs post) v) .readInfo = (r0, .header))
    (sched : List Nat) :
    ∃ buf, specPixels h raw (List.replicate h.bufferSize p) = some buf ∧ buf.length = h.bufferSize ∧
      (resumeRun cfg t (stillBytes cfg h anc zs post).length sched [.nextFrame p] r0 = [] ∨
       resumeRun cfg t (stillBytes cfg h anc zs post).length sched [.nextFrame p] r0 =
        [.frame { width := h.width, height := h.height, color := h.color, depth := h.depth, lineSize := h.lineSize } buf]) := by
  obtain ⟨buf, hrun, hspec, hbl⟩ := C01.C01_decode cfg t f opts limit h anc dA zs raw post p hI hC ht hv hanc hidle hzs hlen
    hinf hraw hpost hsize hlimit
  obtain ⟨ys, h1, _⟩ := delivery_from_start' cfg hI hT opts limit f (stillBytes cfg h anc zs post) h32 v hvis r0 hri
    [.nextFrame p] (isCall_nextFrame p) sched _ hrun (good_frame _ buf)
  exact ⟨buf, hspec, hbl, prefix_singleton h1⟩

/-- **C01 under any delivery, for the transformation of the executable model** (`Driver.realT`, i.e.
    `Model/Transform.lean`, with `Transformations::IDENTITY`): no hypothesis about the transformation -/
theorem C01_any_delivery_real (cfg : Cfg) (opts : Options) (limit : Nat) (h : Header) (anc : Bytes)
    (dA : Dec) (zs : List Bytes) (raw : Bytes) (post : List (ChunkType × Bytes)) (p : UInt8)
    (hI : cfg.InflateOk) (hC : cfg.CrcOk) (hv : h.Valid)
    (hanc : AncTrace cfg (afterIhdr cfg opts limit h) anc dA) (hidle : Idle dA h.info.core)
    (hzs : zs ≠ []) (hlen : ∀ z ∈ zs, z.length < 2 ^ 32) (hinf : cfg.inflate zs.flatten = some (raw, true))
    (hraw : RawOk h raw) (hpost : ∀ c ∈ post, c.1 ≠ IDAT ∧ c.1 < 2 ^ 32 ∧ c.2.length < 2 ^ 32)
    (hsize : h.lineSize * h.height < 2 ^ 64) (hlimit : h.lineSize ≤ dA.limit)
    (h32 : (stillBytes cfg h anc zs post).length < 2 ^ 32)
    (v : Nat) (hvis : v ≤ (stillBytes cfg h anc zs post).length) (r0 : R)
    (hri : step cfg Driver.realT (R.init opts limit {} (stillBytes cfg h anc zs post) v) .readInfo = (r0, .header))
    (sched : List Nat) (hs : (stillBytes cfg h anc zs post).length ≤ v + sched.sum) :
    ∃ buf,
      resumeRun cfg Driver.realT (stillBytes cfg h anc zs post).length sched [.nextFrame p] r0 =
        [.frame { width := h.width, height := h.height, color := h.color, depth := h.depth, lineSize := h.lineSize } buf] ∧
      specPixels h raw (List.replicate h.bufferSize p) = some buf ∧ buf.length = h.bufferSize :=
  C01_any_delivery cfg Driver.realT {} opts limit h anc dA zs raw post p hI hC Driver.realT_isIdentity Driver.realT_resumeOk hv
    hanc hidle hzs hlen hinf hraw hpost hsize hlimit h32 v hvis r0 hri sched hs

/-! ## C01 row by row -/

/-- **C01 row by row under any delivery.**  The caller pulls the image with `next_row`, one call per scanline of the header
    and one more, repeating every call that ran out of input: the results are the specification's scanlines
    (`specScanlines`), each with its `InterlaceInfo`, in transmission order, then `None` — as `C01.C01_decode_rows` says for
    the complete file. -/
theorem C01_rows_any_delivery (cfg : Cfg) (t : TCfg) (f : Flags) (opts : Options) (limit : Nat) (h : Header) (anc : Bytes)
    (dA : Dec) (zs : List Bytes) (raw : Bytes) (post : List (ChunkType × Bytes))
    (hI : cfg.InflateOk) (hC : cfg.CrcOk) (ht : t.IsIdentity f) (hT : t.ResumeOk) (hv : h.Valid)
    (hanc : AncTrace cfg (afterIhdr cfg opts limit h) anc dA) (hidle : Idle dA h.info.core)
    (hzs : zs ≠ []) (hlen : ∀ z ∈ zs, z.length < 2 ^ 32) (hinf : cfg.inflate zs.flatten = some (raw, true))
    (hraw : RawOk h raw) (hpost : ∀ c ∈ post, c.1 ≠ IDAT ∧ c.1 < 2 ^ 32 ∧ c.2.length < 2 ^ 32)
    (hsize : h.lineSize * h.height < 2 ^ 64) (hlimit : h.lineSize ≤ dA.limit)
    (h32 : (stillBytes cfg h anc zs post).length < 2 ^ 32)
    (v : Nat) (hvis : v ≤ (stillBytes cfg h anc zs post).length) (r0 : R)
    (hri : step cfg t (R.init opts limit f (stillBytes cfg h anc zs post) v) .readInfo = (r0, .header))
    (sched : List Nat) (hs : (stillBytes cfg h anc zs post).length ≤ v + sched.sum) :
    resumeRun cfg t (stillBytes cfg h anc zs post).length sched (List.replicate (h.scanlines.length + 1) .nextRow) r0 =
      ((h.scanlines.zip (specScanlines h raw)).map fun x => Reader.Res.row (iinfoOf h.interlaced x.1) x.2) ++ [.noRow] := by
  have hrun := C01.C01_decode_rows cfg t f opts limit h anc dA zs raw post hI hC ht hv hanc hidle hzs hlen hinf hraw hpost hsize
    hlimit
  obtain ⟨ys, h1, h2⟩ := delivery_from_start' cfg hI hT opts limit f (stillBytes cfg h anc zs post) h32 v hvis r0 hri
    _ (isCall_nextRows _) sched _ hrun (good_rows _ _ _)
  rw [h2 hs, List.append_nil] at h1
  exact h1.symm

/-- **… under a schedule that need not deliver everything**: the rows obtained so far are the FIRST of the specification's
    scanlines — every row handed out is the right one -/
theorem C01_rows_any_delivery_prefix (cfg : Cfg) (t : TCfg) (f : Flags) (opts : Options) (limit : Nat) (h : Header)
  (anc : Bytes)
    (dA : Dec) (zs : List Bytes) (raw : Bytes) (post : List (ChunkType × Bytes))
    (hI : cfg.InflateOk) (hC : cfg.CrcOk) (ht : t.IsIdentity f) (hT : t.ResumeOk) (hv : h.Valid)
    (hanc : AncTrace cfg (afterIhdr cfg opts limit h) anc dA) (hidle : Idle dA h.info.core)
    (hzs : zs ≠ []) (hlen : ∀ z ∈ zs, z.length < 2 ^ 32) (hinf : cfg.inflate zs.flatten = some (raw, true))
    (hraw : RawOk h raw) (hpost : ∀ c ∈ post, c.1 ≠ IDAT ∧ c.1 < 2 ^ 32 ∧ c.2.length < 2 ^ 32)
    (hsize : h.lineSize * h.height < 2 ^ 64) (hlimit : h.lineSize ≤ dA.limit)
    (h32 : (stillBytes cfg h anc zs post).length < 2 ^ 32)
    (v : Nat) (hvis : v ≤ (stillBytes cfg h anc zs post).length) (r0 : R)
    (hri : step cfg t (R.init opts limit f (stillBytes cfg h anc zs post) v) .readInfo = (r0, .header))
    (sched : List Nat) :
    resumeRun cfg t (stillBytes cfg h anc zs post).length sched (List.replicate (h.scanlines.length + 1) .nextRow) r0 <+:
      ((h.scanlines.zip (specScanlines h raw)).map fun x => Reader.Res.row (iinfoOf h.interlaced x.1) x.2) ++ [.noRow] := by
  have hrun := C01.C01_decode_rows cfg t f opts limit h anc dA zs raw post hI hC ht hv hanc hidle hzs hlen hinf hraw hpost hsize
    hlimit
  obtain ⟨ys, h1, _⟩ := delivery_from_start' cfg hI hT opts limit f (stillBytes cfg h anc zs post) h32 v hvis r0 hri
    _ (isCall_nextRows _) sched _ hrun (good_rows _ _ _)
  exact ⟨ys, h1.symm⟩

/-! ## C09: animations -/

/-- **C09 under any delivery** (animations whose first frame is the `IDAT` image).  Hypotheses of `C09.C09_frames`, the
    contracts of C05 on the transformation, a file shorter than 4 GiB; `read_info` succeeds on the first `v` bytes; the
    schedule delivers the rest in any pieces.  The caller asks for the frames one after the other (`next_frame` with a
    buffer pre-filled with `p0`, then with the bytes of `ps`), repeating every call that ran out of input: the results are
    exactly the frames of the file in file order, each with its own `OutputInfo` and `specFrame` of its own data — the list
    `C09.C09_frames` gives for the complete file. -/
theorem C09_any_delivery (cfg : Cfg) (t : TCfg) (f : Flags) (opts : Options) (limit : Nat) (h : Header) (plays : Nat)
    (anc : List (ChunkType × Bytes)) (dAnc : Dec) (frames : List (FrameControl × List Bytes × Bytes))
    (fc0 : FrameControl) (zs0 : List Bytes) (raw0 : Bytes) (p0 : UInt8) (ps : List UInt8)
    (hI : cfg.InflateOk) (hC : cfg.CrcOk) (ht : t.IsIdentity f) (hT : t.ResumeOk) (hv : h.Valid) (hpl : plays < 2 ^ 32)
    (hnf : frames.length + 1 < 2 ^ 32)
    (hanc : AncChunksG cfg (actlAfter (afterIhdr cfg opts limit h) (frames.length + 1) plays) anc dAnc) (hna : NoActl anc)
    (hfc0 : FcOk h fc0) (hzs0 : zs0 ≠ []) (hlen0 : ∀ z ∈ zs0, z.length < 2 ^ 32)
    (hinf0 : cfg.inflate zs0.flatten = some (raw0, true)) (hraw0 : RawOk (h.frame fc0) raw0)
    (hframes : ∀ fr ∈ frames, FrameOk cfg h fr)
    (hseq : 1 + (frames.map fun x => 1 + x.2.1.length).sum < 2 ^ 32)
    (hsize : h.lineSize * h.height < 2 ^ 64)
    (hlimit : (h.frame fc0).lineSize + (frames.map fun x => (h.frame x.1).lineSize).sum ≤ dAnc.limit)
    (hps : ps.length = frames.length)
    (h32 : (wellFormedApng cfg h plays anc fc0 zs0 (framesOf frames)).length < 2 ^ 32)
    (v : Nat) (hvis : v ≤ (wellFormedApng cfg h plays anc fc0 zs0 (framesOf frames)).length) (r0 : R)
    (hri : step cfg t (R.init opts limit f (wellFormedApng cfg h plays anc fc0 zs0 (framesOf frames)) v) .readInfo =
      (r0, .header))
    (sched : List Nat) (hs : (wellFormedApng cfg h plays anc fc0 zs0 (framesOf frames)).length ≤ v + sched.sum) :
    ∃ buf0 rs,
      resumeRun cfg t (wellFormedApng cfg h plays anc fc0 zs0 (framesOf frames)).length sched
        (.nextFrame p0 :: ps.map Op.nextFrame) r0 =
        .frame { width := fc0.width, height := fc0.height, color := h.color, depth := h.depth,
                 lineSize := (h.frame fc0).lineSize } buf0 :: rs ∧
      specFrame (h.frame fc0) raw0 (List.replicate h.bufferSize p0) = some buf0 ∧ buf0.length = h.bufferSize ∧
      FramesOk h frames ps rs := by
  obtain ⟨buf0, rs, hrun, hspec, hbl, hfr⟩ := C09.C09_frames cfg t f opts limit h plays anc dAnc frames fc0 zs0 raw0 p0 ps 0 hI
    hC ht hv hpl hnf hanc hna hfc0 hzs0 hlen0 hinf0 hraw0 hframes hseq hsize hlimit hps
  obtain ⟨ys, h1, h2⟩ := delivery_from_start' cfg hI hT opts limit f (wellFormedApng cfg h plays anc fc0 zs0 (framesOf frames))
    h32 v hvis r0 hri
    _ (isCall_nextFrames p0 ps) sched _ (run_frames_drop_last cfg t _ _ _ _ _ _ _ hrun)
    (good_frames _ buf0 (framesOk_good h frames ps rs hfr).2)
  refine ⟨buf0, rs, ?_, hspec, hbl, hfr⟩
  rw [h2 hs, List.append_nil] at h1
  exact h1.symm

/-- **… under a schedule that need not deliver everything**: the frames obtained so far are the FIRST frames of the file —
    every frame handed out is the right one -/
theorem C09_any_delivery_prefix (cfg : Cfg) (t : TCfg) (f : Flags) (opts : Options) (limit : Nat) (h : Header) (plays : Nat)
    (anc : List (ChunkType × Bytes)) (dAnc : Dec) (frames : List (FrameControl × List Bytes × Bytes))
    (fc0 : FrameControl) (zs0 : List Bytes) (raw0 : Bytes) (p0 : UInt8) (ps : List UInt8)
    (hI : cfg.InflateOk) (hC : cfg.CrcOk) (ht : t.IsIdentity f) (hT : t.ResumeOk) (hv : h.Valid) (hpl : plays < 2 ^ 32)
    (hnf : frames.length + 1 < 2 ^ 32)
    (hanc : AncChunksG cfg (actlAfter (afterIhdr cfg opts limit h) (frames.length + 1) plays) anc dAnc) (hna : NoActl anc)
    (hfc0 : FcOk h fc0) (hzs0 : zs0 ≠ []) (hlen0 : ∀ z ∈ zs0, z.length < 2 ^ 32)
    (hinf0 : cfg.inflate zs0.flatten = some (raw0, true)) (hraw0 : RawOk (h.frame fc0) raw0)
    (hframes : ∀ fr ∈ frames, FrameOk cfg h fr)
    (hseq : 1 + (frames.map fun x => 1 + x.2.1.length).sum < 2 ^ 32)
    (hsize : h.lineSize * h.height < 2 ^ 64)
    (hlimit : (h.frame fc0).lineSize + (frames.map fun x => (h.frame x.1).lineSize).sum ≤ dAnc.limit)
    (hps : ps.length = frames.length)
    (h32 : (wellFormedApng cfg h plays anc fc0 zs0 (framesOf frames)).length < 2 ^ 32)
    (v : Nat) (hvis : v ≤ (wellFormedApng cfg h plays anc fc0 zs0 (framesOf frames)).length) (r0 : R)
    (hri : step cfg t (R.init opts limit f (wellFormedApng cfg h plays anc fc0 zs0 (framesOf frames)) v) .readInfo =
      (r0, .header))
    (sched : List Nat) :
    ∃ buf0 rs,
      resumeRun cfg t (wellFormedApng cfg h plays anc fc0 zs0 (framesOf frames)).length sched
        (.nextFrame p0 :: ps.map Op.nextFrame) r0 <+:
        .frame { width := fc0.width, height := fc0.height, color := h.color, depth := h.depth,
                 lineSize := (h.frame fc0).lineSize } buf0 :: rs ∧
      specFrame (h.frame fc0) raw0 (List.replicate h.bufferSize p0) = some buf0 ∧ buf0.length = h.bufferSize ∧
      FramesOk h frames ps rs := by
  obtain ⟨buf0, rs, hrun, hspec, hbl, hfr⟩ := C09.C09_frames cfg t f opts limit h plays anc dAnc frames fc0 zs0 raw0 p0 ps 0 hI
    hC ht hv hpl hnf hanc hna hfc0 hzs0 hlen0 hinf0 hraw0 hframes hseq hsize hlimit hps
  obtain ⟨ys, h1, _⟩ := delivery_from_start' cfg hI hT opts limit f (wellFormedApng cfg h plays anc fc0 zs0 (framesOf frames))
    h32 v hvis r0 hri
    _ (isCall_nextFrames p0 ps) sched _ (run_frames_drop_last cfg t _ _ _ _ _ _ _ hrun)
    (good_frames _ buf0 (framesOk_good h frames ps rs hfr).2)
  exact ⟨buf0, rs, ⟨ys, h1.symm⟩, hspec, hbl, hfr⟩

set_option linter.unusedVariables false in
/-- the statement with the LAST result pinned down as well — the retrying caller, too, is refused behind the last frame.
    proved later in Props/C04DeliveryEnd.lean (C09_any_delivery_with_refusal); at the time of this file not proved here (true on the examples below).  Two facts are missing, neither of which the existing theorems export:
    (1) `Reader.resumeRun_spec` / `Reader.runUntilEof_spec` relate the readers of the two callers only while calls remain
    (`JSt … [] ` is just `A.visible ≤ L`): needed is that, when all calls of `good` have returned, the retrying caller's
    reader still lags behind the reader that saw everything (`LagSome`, which `runUntilEof_spec` establishes internally
    after every returned call) — then `remaining` and `sub.cur` are the same in both (`LagLe.fields`);
    (2) that reader, after the last frame of the complete-file run, has `remaining = 0` and `sub.cur = none`
    (`Reader.frames_run` has this as `Between … []`; `C09_frames` states the refusal only) — then
    `Reader.nextFrameOp_polled` gives the refusal for the retrying caller.  C05 itself cannot give it: a call that FAILS
    on the complete file is outside `C05_resume` (`C05_resume_needs_good_run`). -/
def C09_any_delivery_with_refusal_statement : Prop :=
  ∀ (cfg : Cfg) (t : TCfg) (f : Flags) (opts : Options) (limit : Nat) (h : Header)
    (plays : Nat) (anc : List (ChunkType × Bytes)) (dAnc : Dec) (frames : List (FrameControl × List Bytes × Bytes))
    (fc0 : FrameControl) (zs0 : List Bytes) (raw0 : Bytes) (p0 : UInt8) (ps : List UInt8)
    (hI : cfg.InflateOk) (hC : cfg.CrcOk) (ht : t.IsIdentity f) (hT : t.ResumeOk) (hv : h.Valid) (hpl : plays < 2 ^ 32)
    (hnf : frames.length + 1 < 2 ^ 32)
    (hanc : AncChunksG cfg (actlAfter (afterIhdr cfg opts limit h) (frames.length + 1) plays) anc dAnc) (hna : NoActl anc)
    (hfc0 : FcOk h fc0) (hzs0 : zs0 ≠ []) (hlen0 : ∀ z ∈ zs0, z.length < 2 ^ 32)
    (hinf0 : cfg.inflate zs0.flatten = some (raw0, true)) (hraw0 : RawOk (h.frame fc0) raw0)
    (hframes : ∀ fr ∈ frames, FrameOk cfg h fr)
    (hseq : 1 + (frames.map fun x => 1 + x.2.1.length).sum < 2 ^ 32)
    (hsize : h.lineSize * h.height < 2 ^ 64)
    (hlimit : (h.frame fc0).lineSize + (frames.map fun x => (h.frame x.1).lineSize).sum ≤ dAnc.limit)
    (hps : ps.length = frames.length)
    (h32 : (wellFormedApng cfg h plays anc fc0 zs0 (framesOf frames)).length < 2 ^ 32)
    (v : Nat) (hvis : v ≤ (wellFormedApng cfg h plays anc fc0 zs0 (framesOf frames)).length) (r0 : R)
    (hri : step cfg t (R.init opts limit f (wellFormedApng cfg h plays anc fc0 zs0 (framesOf frames)) v) .readInfo =
      (r0, .header)) (q : UInt8)
    (sched : List Nat) (hs : (wellFormedApng cfg h plays anc fc0 zs0 (framesOf frames)).length ≤ v + sched.sum),
    ∃ buf0 rs,
      (run cfg t (R.init opts limit f (wellFormedApng cfg h plays anc fc0 zs0 (framesOf frames))
        (wellFormedApng cfg h plays anc fc0 zs0 (framesOf frames)).length)
        (.readInfo :: (.nextFrame p0 :: ps.map Op.nextFrame ++ [.nextFrame q]))).2 =
        .header :: (.frame { width := fc0.width, height := fc0.height, color := h.color, depth := h.depth,
                             lineSize := (h.frame fc0).lineSize } buf0 :: rs ++ [.err .parameter "PolledAfterEndOfImage"]) ∧
      resumeRun cfg t (wellFormedApng cfg h plays anc fc0 zs0 (framesOf frames)).length sched
        (.nextFrame p0 :: ps.map Op.nextFrame ++ [.nextFrame q]) r0 =
        (.frame { width := fc0.width, height := fc0.height, color := h.color, depth := h.depth,
                  lineSize := (h.frame fc0).lineSize } buf0 :: rs) ++ [.err .parameter "PolledAfterEndOfImage"] ∧
      specFrame (h.frame fc0) raw0 (List.replicate h.bufferSize p0) = some buf0 ∧ buf0.length = h.bufferSize ∧
      FramesOk h frames ps rs

/-- **… with the call behind the last frame**, which the run on the complete file refuses
    (`Parameter(PolledAfterEndOfImage)`, not a successful result: the comparison of `C05_resume_until_failure` ends before
    it): the run on the complete file returns the frames and then the refusal; the retrying caller's results on ALL calls
    begin with exactly the frames.  This is the proved part of `C09_any_delivery_with_refusal_statement`: what is left
    open is only that `tail` is the refusal. -/
theorem C09_any_delivery_until_refusal (cfg : Cfg) (t : TCfg) (f : Flags) (opts : Options) (limit : Nat) (h : Header)
    (plays : Nat) (anc : List (ChunkType × Bytes)) (dAnc : Dec) (frames : List (FrameControl × List Bytes × Bytes))
    (fc0 : FrameControl) (zs0 : List Bytes) (raw0 : Bytes) (p0 : UInt8) (ps : List UInt8)
    (hI : cfg.InflateOk) (hC : cfg.CrcOk) (ht : t.IsIdentity f) (hT : t.ResumeOk) (hv : h.Valid) (hpl : plays < 2 ^ 32)
    (hnf : frames.length + 1 < 2 ^ 32)
    (hanc : AncChunksG cfg (actlAfter (afterIhdr cfg opts limit h) (frames.length + 1) plays) anc dAnc) (hna : NoActl anc)
    (hfc0 : FcOk h fc0) (hzs0 : zs0 ≠ []) (hlen0 : ∀ z ∈ zs0, z.length < 2 ^ 32)
    (hinf0 : cfg.inflate zs0.flatten = some (raw0, true)) (hraw0 : RawOk (h.frame fc0) raw0)
    (hframes : ∀ fr ∈ frames, FrameOk cfg h fr)
    (hseq : 1 + (frames.map fun x => 1 + x.2.1.length).sum < 2 ^ 32)
    (hsize : h.lineSize * h.height < 2 ^ 64)
    (hlimit : (h.frame fc0).lineSize + (frames.map fun x => (h.frame x.1).lineSize).sum ≤ dAnc.limit)
    (hps : ps.length = frames.length)
    (h32 : (wellFormedApng cfg h plays anc fc0 zs0 (framesOf frames)).length < 2 ^ 32)
    (v : Nat) (hvis : v ≤ (wellFormedApng cfg h plays anc fc0 zs0 (framesOf frames)).length) (r0 : R)
    (hri : step cfg t (R.init opts limit f (wellFormedApng cfg h plays anc fc0 zs0 (framesOf frames)) v) .readInfo =
      (r0, .header)) (q : UInt8)
    (sched : List Nat) (hs : (wellFormedApng cfg h plays anc fc0 zs0 (framesOf frames)).length ≤ v + sched.sum) :
    ∃ buf0 rs tail,
      (run cfg t (R.init opts limit f (wellFormedApng cfg h plays anc fc0 zs0 (framesOf frames))
        (wellFormedApng cfg h plays anc fc0 zs0 (framesOf frames)).length)
        (.readInfo :: (.nextFrame p0 :: ps.map Op.nextFrame ++ [.nextFrame q]))).2 =
        .header :: (.frame { width := fc0.width, height := fc0.height, color := h.color, depth := h.depth,
                             lineSize := (h.frame fc0).lineSize } buf0 :: rs ++ [.err .parameter "PolledAfterEndOfImage"]) ∧
      resumeRun cfg t (wellFormedApng cfg h plays anc fc0 zs0 (framesOf frames)).length sched
        (.nextFrame p0 :: ps.map Op.nextFrame ++ [.nextFrame q]) r0 =
        (.frame { width := fc0.width, height := fc0.height, color := h.color, depth := h.depth,
                  lineSize := (h.frame fc0).lineSize } buf0 :: rs) ++ tail ∧
      specFrame (h.frame fc0) raw0 (List.replicate h.bufferSize p0) = some buf0 ∧ buf0.length = h.bufferSize ∧
      FramesOk h frames ps rs := by
  obtain ⟨buf0, rs, hrun, hspec, hbl, hfr⟩ := C09.C09_frames cfg t f opts limit h plays anc dAnc frames fc0 zs0 raw0 p0 ps q hI
    hC ht hv hpl hnf hanc hna hfc0 hzs0 hlen0 hinf0 hraw0 hframes hseq hsize hlimit hps
  obtain ⟨ys, tail, h1, h2, h3⟩ := delivery_from_start_until_failure' cfg hI hT opts limit f
    (wellFormedApng cfg h plays anc fc0 zs0 (framesOf frames)) h32 v hvis r0 hri
    _ [.nextFrame q] (isCall_nextFrames p0 ps) sched _ (run_frames_drop_last cfg t _ _ _ _ _ _ _ hrun)
    (good_frames _ buf0 (framesOk_good h frames ps rs hfr).2)
  refine ⟨buf0, rs, tail, hrun, ?_, hspec, hbl, hfr⟩
  rw [h2 hs, List.append_nil] at h1
  rw [h3, ← h1]

/-- **C09 under any delivery, the `IDAT` image not part of the animation** (`C09.C09_default_image`): the first result is
    the `IDAT` image exactly as for a still image (`specPixels`, the header's geometry), then the frames in file order -/
theorem C09_default_image_any_delivery (cfg : Cfg) (t : TCfg) (f : Flags) (opts : Options) (limit : Nat) (h : Header)
    (plays : Nat) (anc : List (ChunkType × Bytes)) (dAnc : Dec) (frames : List (FrameControl × List Bytes × Bytes))
    (zs0 : List Bytes) (raw0 : Bytes) (p0 : UInt8) (ps : List UInt8)
    (hI : cfg.InflateOk) (hC : cfg.CrcOk) (ht : t.IsIdentity f) (hT : t.ResumeOk) (hv : h.Valid) (hpl : plays < 2 ^ 32)
    (hnf : frames.length < 2 ^ 32)
    (hanc : AncChunksG cfg (actlAfter (afterIhdr cfg opts limit h) frames.length plays) anc dAnc) (hna : NoActl anc)
    (hzs0 : zs0 ≠ []) (hlen0 : ∀ z ∈ zs0, z.length < 2 ^ 32)
    (hinf0 : cfg.inflate zs0.flatten = some (raw0, true)) (hraw0 : RawOk h raw0)
    (hframes : ∀ fr ∈ frames, FrameOk cfg h fr)
    (hseq : (frames.map fun x => 1 + x.2.1.length).sum < 2 ^ 32)
    (hsize : h.lineSize * h.height < 2 ^ 64)
    (hlimit : h.lineSize + (frames.map fun x => (h.frame x.1).lineSize).sum ≤ dAnc.limit)
    (hps : ps.length = frames.length)
    (h32 : (wellFormedApngDefault cfg h plays anc zs0 (framesOf frames)).length < 2 ^ 32)
    (v : Nat) (hvis : v ≤ (wellFormedApngDefault cfg h plays anc zs0 (framesOf frames)).length) (r0 : R)
    (hri : step cfg t (R.init opts limit f (wellFormedApngDefault cfg h plays anc zs0 (framesOf frames)) v) .readInfo =
      (r0, .header))
    (sched : List Nat) (hs : (wellFormedApngDefault cfg h plays anc zs0 (framesOf frames)).length ≤ v + sched.sum) :
    ∃ buf0 rs,
      resumeRun cfg t (wellFormedApngDefault cfg h plays anc zs0 (framesOf frames)).length sched
        (.nextFrame p0 :: ps.map Op.nextFrame) r0 =
        .frame { width := h.width, height := h.height, color := h.color, depth := h.depth, lineSize := h.lineSize } buf0 :: rs ∧
      specPixels h raw0 (List.replicate h.bufferSize p0) = some buf0 ∧ buf0.length = h.bufferSize ∧
      FramesOk h frames ps rs := by
  obtain ⟨buf0, rs, hrun, hspec, hbl, hfr⟩ := C09.C09_default_image cfg t f opts limit h plays anc dAnc frames zs0 raw0 p0 ps 0
    hI hC ht hv hpl hnf hanc hna hzs0 hlen0 hinf0 hraw0 hframes hseq hsize hlimit hps
  obtain ⟨ys, h1, h2⟩ := delivery_from_start' cfg hI hT opts limit f (wellFormedApngDefault cfg h plays anc zs0
    (framesOf frames)) h32 v hvis r0 hri
    _ (isCall_nextFrames p0 ps) sched _ (run_frames_drop_last cfg t _ _ _ _ _ _ _ hrun)
    (good_frames _ buf0 (framesOk_good h frames ps rs hfr).2)
  refine ⟨buf0, rs, ?_, hspec, hbl, hfr⟩
  rw [h2 hs, List.append_nil] at h1
  exact h1.symm

/-- **C09 under any delivery, for the transformation of the executable model**: no hypothesis about the transformation -/
theorem C09_any_delivery_real (cfg : Cfg) (opts : Options) (limit : Nat) (h : Header) (plays : Nat)
    (anc : List (ChunkType × Bytes)) (dAnc : Dec) (frames : List (FrameControl × List Bytes × Bytes))
    (fc0 : FrameControl) (zs0 : List Bytes) (raw0 : Bytes) (p0 : UInt8) (ps : List UInt8)
    (hI : cfg.InflateOk) (hC : cfg.CrcOk) (hv : h.Valid) (hpl : plays < 2 ^ 32)
    (hnf : frames.length + 1 < 2 ^ 32)
    (hanc : AncChunksG cfg (actlAfter (afterIhdr cfg opts limit h) (frames.length + 1) plays) anc dAnc) (hna : NoActl anc)
    (hfc0 : FcOk h fc0) (hzs0 : zs0 ≠ []) (hlen0 : ∀ z ∈ zs0, z.length < 2 ^ 32)
    (hinf0 : cfg.inflate zs0.flatten = some (raw0, true)) (hraw0 : RawOk (h.frame fc0) raw0)
    (hframes : ∀ fr ∈ frames, FrameOk cfg h fr)
    (hseq : 1 + (frames.map fun x => 1 + x.2.1.length).sum < 2 ^ 32)
    (hsize : h.lineSize * h.height < 2 ^ 64)
    (hlimit : (h.frame fc0).lineSize + (frames.map fun x => (h.frame x.1).lineSize).sum ≤ dAnc.limit)
    (hps : ps.length = frames.length)
    (h32 : (wellFormedApng cfg h plays anc fc0 zs0 (framesOf frames)).length < 2 ^ 32)
    (v : Nat) (hvis : v ≤ (wellFormedApng cfg h plays anc fc0 zs0 (framesOf frames)).length) (r0 : R)
    (hri : step cfg Driver.realT (R.init opts limit {} (wellFormedApng cfg h plays anc fc0 zs0 (framesOf frames)) v) .readInfo =
      (r0, .header))
    (sched : List Nat) (hs : (wellFormedApng cfg h plays anc fc0 zs0 (framesOf frames)).length ≤ v + sched.sum) :
    ∃ buf0 rs,
      resumeRun cfg Driver.realT (wellFormedApng cfg h plays anc fc0 zs0 (framesOf frames)).length sched
        (.nextFrame p0 :: ps.map Op.nextFrame) r0 =
        .frame { width := fc0.width, height := fc0.height, color := h.color, depth := h.depth,
                 lineSize := (h.frame fc0).lineSize } buf0 :: rs ∧
      specFrame (h.frame fc0) raw0 (List.replicate h.bufferSize p0) = some buf0 ∧ buf0.length = h.bufferSize ∧
      FramesOk h frames ps rs :=
  C09_any_delivery cfg Driver.realT {} opts limit h plays anc dAnc frames fc0 zs0 raw0 p0 ps hI hC Driver.realT_isIdentity
    Driver.realT_resumeOk hv hpl hnf hanc hna hfc0 hzs0 hlen0 hinf0 hraw0 hframes hseq hsize hlimit hps h32 v hvis r0 hri sched
      hs

/-! ## Non-vacuity: the hypotheses hold for small files, the toy inflater / CRC, byte-by-byte delivery -/

section Examples
open Png.Framing.Toy Png.Reader.Toy Png.Reader.ToyLate Png.C01

/-- the contracts hold for the toy identity transformation -/
example : idT.IsIdentity {} ∧ idT.ResumeOk := ⟨idT_isIdentity, contracts_suffice idT idT_ok idT_stable⟩

/-- the interlaced 2×2 image of `Props/C01Decode.lean` (three scanlines in passes 1, 6, 7; four `IDAT` chunks, one of them
    empty): 101 bytes -/
def file2 : Bytes := stillBytes toyCfg hGray2i [] zs2 []
/-- the `Reader` that `read_info` returns when the first 41 bytes are visible (up to the first byte of `IDAT` data) -/
def reader2 : R := (step toyCfg idT (R.init {} (2 ^ 64 - 1) {} file2 41) .readInfo).1

/-- `read_info` needs 41 bytes: with 40 it runs out of input -/
example : file2 = wellFormedStill toyCfg hGray2i [] zs2 [] ∧ file2.length = 101 ∧
    (step toyCfg idT (R.init {} (2 ^ 64 - 1) {} file2 40) .readInfo).2 = .err .eof "UnexpectedEof" ∧
    (step toyCfg idT (R.init {} (2 ^ 64 - 1) {} file2 41) .readInfo).2 = .header := by decide +kernel

/-- the remaining 60 bytes arrive ONE BY ONE: `next_frame` runs out of input again and again (`resumeRun` drops those
    results) and finally returns the specification's pixels; when only 55 more bytes arrive (the frame is complete once the
    type of the chunk behind the image data is visible), nothing is returned; in pieces of 7, 1, 30, 100 bytes the same frame -/
example : resumeRun toyCfg idT file2.length (List.replicate 60 1) [.nextFrame 7] reader2 =
      [.frame ⟨2, 2, 0, 8, 2⟩ [10, 20, 30, 35]] ∧
    resumeRun toyCfg idT file2.length (List.replicate 55 1) [.nextFrame 7] reader2 = [] ∧
    resumeRun toyCfg idT file2.length [7, 1, 30, 100] [.nextFrame 7] reader2 = [.frame ⟨2, 2, 0, 8, 2⟩ [10, 20, 30, 35]] ∧
    specPixels hGray2i raw2 (List.replicate hGray2i.bufferSize 7) = some [10, 20, 30, 35] := by
  decide +kernel

/-- how often the call had to be repeated under byte-by-byte delivery: 56 attempts ran out of input -/
example : ((run toyCfg idT reader2 ((List.replicate 60 [Op.nextFrame 7, .grow 1]).flatten ++ [.nextFrame 7])).2.filter
    Reader.Res.isEof).length = 56 := by decide +kernel

/-- **the instance of `C01_any_delivery`** for this file, `v = 41`, byte-by-byte delivery: all hypotheses hold -/
example : ∃ buf, resumeRun toyCfg idT file2.length (List.replicate 60 1) [.nextFrame 7] reader2 =
      [.frame ⟨2, 2, 0, 8, 2⟩ buf] ∧
    specPixels hGray2i raw2 (List.replicate hGray2i.bufferSize 7) = some buf ∧ buf.length = hGray2i.bufferSize :=
  C01_any_delivery toyCfg idT {} {} (2 ^ 64 - 1) hGray2i [] _ zs2 raw2 [] 7 toy_inflateOk toy_crcOk idT_isIdentity
    (contracts_suffice idT idT_ok idT_stable) (by decide)
    (ancillary_chunks_ok toyCfg toy_crcOk {} _ hGray2i [] _ (.nil _)).1
    (ancillary_chunks_ok toyCfg toy_crcOk {} _ hGray2i [] _ (.nil _)).2.1
    (by decide) (by decide) (by decide) (by decide) (fun _ hc => by cases hc) (by decide) (by decide) (by decide +kernel)
    41 (by decide +kernel) reader2
    (step_eq_of_snd (x := step toyCfg idT (R.init {} (2 ^ 64 - 1) {} file2 41) .readInfo) (by decide +kernel))
    (List.replicate 60 1) (by decide +kernel)

/-- **the instance of `C01_rows_any_delivery`**: three scanlines and `None`, byte by byte -/
example : resumeRun toyCfg idT file2.length (List.replicate 60 1) (List.replicate (hGray2i.scanlines.length + 1) .nextRow)
  reader2 =
    ((hGray2i.scanlines.zip (specScanlines hGray2i raw2)).map fun x => Reader.Res.row (iinfoOf hGray2i.interlaced x.1) x.2) ++
      [.noRow] :=
  C01_rows_any_delivery toyCfg idT {} {} (2 ^ 64 - 1) hGray2i [] _ zs2 raw2 [] toy_inflateOk toy_crcOk idT_isIdentity
    (contracts_suffice idT idT_ok idT_stable) (by decide)
    (ancillary_chunks_ok toyCfg toy_crcOk {} _ hGray2i [] _ (.nil _)).1
    (ancillary_chunks_ok toyCfg toy_crcOk {} _ hGray2i [] _ (.nil _)).2.1
    (by decide) (by decide) (by decide) (by decide) (fun _ hc => by cases hc) (by decide) (by decide) (by decide +kernel)
    41 (by decide +kernel) reader2
    (step_eq_of_snd (x := step toyCfg idT (R.init {} (2 ^ 64 - 1) {} file2 41) .readInfo) (by decide +kernel))
    (List.replicate 60 1) (by decide +kernel)

/-- … evaluated: the rows of passes 1, 6, 7 (`[10]`, `[20]`, `[30, 35]`), then `None`; after 30 more bytes the first two -/
example : (resumeRun toyCfg idT file2.length (List.replicate 60 1) (List.replicate 4 .nextRow) reader2).map code =
      [201, 201, 202, 3] ∧
    (resumeRun toyCfg idT file2.length (List.replicate 30 1) (List.replicate 4 .nextRow) reader2).map code = [201, 201] := by
  decide +kernel

/-- **the same file through the transformation of the executable model** (`Driver.realT`): the instance of
    `C01_any_delivery_real` -/
example : ∃ buf, resumeRun toyCfg Driver.realT file2.length (List.replicate 60 1) [.nextFrame 7]
      (step toyCfg Driver.realT (R.init {} (2 ^ 64 - 1) {} file2 41) .readInfo).1 = [.frame ⟨2, 2, 0, 8, 2⟩ buf] ∧
    specPixels hGray2i raw2 (List.replicate hGray2i.bufferSize 7) = some buf ∧ buf.length = hGray2i.bufferSize :=
  C01_any_delivery_real toyCfg {} (2 ^ 64 - 1) hGray2i [] _ zs2 raw2 [] 7 toy_inflateOk toy_crcOk (by decide)
    (ancillary_chunks_ok toyCfg toy_crcOk {} _ hGray2i [] _ (.nil _)).1
    (ancillary_chunks_ok toyCfg toy_crcOk {} _ hGray2i [] _ (.nil _)).2.1
    (by decide) (by decide) (by decide) (by decide) (fun _ hc => by cases hc) (by decide) (by decide) (by decide +kernel)
    41 (by decide +kernel) _
    (step_eq_of_snd (x := step toyCfg Driver.realT (R.init {} (2 ^ 64 - 1) {} file2 41) .readInfo) (by decide +kernel))
    (List.replicate 60 1) (by decide +kernel)

/-! ### animations -/

open Png.C09 in
/-- the 2×2 animation of `Props/C09.lean` (second frame: the single pixel at (1, 1), two `fdAT` chunks): 195 bytes,
    `read_info` needs 99 -/
example : apng2.length = 195 ∧
    (step toyCfg idT (R.init {} (2 ^ 64 - 1) {} apng2 98) .readInfo).2 = .err .eof "UnexpectedEof" ∧
    (step toyCfg idT (R.init {} (2 ^ 64 - 1) {} apng2 99) .readInfo).2 = .header := by decide +kernel

open Png.C09 in
/-- both frames under byte-by-byte delivery, and with the refused third call -/
example : resumeRun toyCfg idT apng2.length (List.replicate 96 1) [.nextFrame 0, .nextFrame 7]
      (step toyCfg idT (R.init {} (2 ^ 64 - 1) {} apng2 99) .readInfo).1 =
      [.frame ⟨2, 2, 0, 8, 2⟩ [1, 2, 3, 4], .frame ⟨1, 1, 0, 8, 1⟩ [9, 7, 7, 7]] ∧
    resumeRun toyCfg idT apng2.length (List.replicate 96 1) [.nextFrame 0, .nextFrame 7, .nextFrame 0]
      (step toyCfg idT (R.init {} (2 ^ 64 - 1) {} apng2 99) .readInfo).1 =
      [.frame ⟨2, 2, 0, 8, 2⟩ [1, 2, 3, 4], .frame ⟨1, 1, 0, 8, 1⟩ [9, 7, 7, 7], .err .parameter "PolledAfterEndOfImage"] := by
  decide +kernel

open Png.C09 in
/-- **the instance of `C09_any_delivery`** for it: all hypotheses hold -/
example : ∃ buf0 rs, resumeRun toyCfg idT apng2.length (List.replicate 96 1) (.nextFrame 0 :: [7].map Op.nextFrame)
      (step toyCfg idT (R.init {} (2 ^ 64 - 1) {} apng2 99) .readInfo).1 = .frame ⟨2, 2, 0, 8, 2⟩ buf0 :: rs ∧
    specFrame (hGray2.frame fcFull) [0, 1, 2, 0, 3, 4] (List.replicate hGray2.bufferSize 0) = some buf0 ∧
    buf0.length = hGray2.bufferSize ∧ FramesOk hGray2 framesToy [7] rs :=
  C09_any_delivery toyCfg idT {} {} (2 ^ 64 - 1) hGray2 0 [] _ framesToy fcFull [[6, 0, 1, 2, 0, 3, 4]] [0, 1, 2, 0, 3, 4] 0 [7]
    toy_inflateOk toy_crcOk idT_isIdentity (contracts_suffice idT idT_ok idT_stable) (by decide) (by decide) (by decide)
    (.nil _) (fun _ hc => by cases hc)
    ⟨by decide, by decide, by decide, by decide, by decide, by decide, by decide, by decide⟩
    (by decide) (by decide) (by decide) (by decide)
    (fun fr hfr => by
      simp only [framesToy, List.mem_singleton] at hfr
      subst hfr
      exact ⟨⟨by decide, by decide, by decide, by decide, by decide, by decide, by decide, by decide⟩, by decide, by decide,
        by decide, by decide⟩)
    (by decide) (by decide) (by decide +kernel) rfl (by decide +kernel) 99 (by decide +kernel) _
    (step_eq_of_snd (x := step toyCfg idT (R.init {} (2 ^ 64 - 1) {} apng2 99) .readInfo) (by decide +kernel))
    (List.replicate 96 1) (by decide +kernel)

end Examples

end Png.C04Delivery
