import PngVerif.Proofs.FramingLogic
import PngVerif.Proofs.FramingToy
/-!
# C06 — the `Limits` ledger of the framing layer

Property theorems only (lemmas: `PngVerif/Proofs/FramingLogic.lean`, Part 6), about `Model/Framing.lean`,
for an ARBITRARY `cfg : Cfg`, ARBITRARY options and input, and any budget `L` (`Limits { bytes: L }`).

`held d` = logical size of everything the framing layer keeps that grows with the input: the capacity
of the chunk buffer plus every blob stored in `Info` (PLTE, tRNS, sBIT, ICC profile, text chunks — paid;
eXIf, bKGD — not paid).  NOT included (other layers, bounded separately): the inflater's window
(`C01.zlib_window_bounded`), the unfiltering buffer and the scratch row of the reader.

Result (`C06_ledger`): along every run from a new decoder with budget `L`,
`held d ≤ 2·(CHUNK_BUFFER_SIZE + (L − d.limit)) + 6 ≤ 2·L + 2·CHUNK_BUFFER_SIZE + 6` — slope `a = 2`, constant
`c = 2·32768 + 6`, produced by the proof: every paid byte is charged once (slope 1), and the only unpaid
copies are one eXIf body (≤ the chunk buffer, which itself is ≤ `CHUNK_BUFFER_SIZE` + what was charged)
and one bKGD body (≤ 6 bytes).  Every statement is for every chunk body, the empty one included (since f31d047 empty
chunks are parsed too: they charge and store 0 bytes).  The sizes are LOGICAL (bytes of the stored fields): the representation
factor of the real crate (Latin-1 text decoded to UTF-8: ≤ 2×; `Vec`/struct overhead per text chunk;
allocator rounding) is outside the model and measured by the harness.
-/
namespace Png.C06
open Png Png.Framing

/-! ## (1) the chunk buffer -/

/-- **Every growth of the chunk buffer is paid first**: a successful `reserve_current_chunk` (body so far within the
    buffer) grows the capacity by at most what it takes from the budget; the capacity never shrinks, the
    budget never grows; and a buffer that cannot grow is `LimitsExceeded` -/
theorem chunkbuf_paid (d d' : Dec) (hfit : d.raw.length ≤ d.cap) (h : reserveCurrentChunk d = .ok d') :
    d'.cap - d.cap ≤ d.limit - d'.limit ∧ d.cap ≤ d'.cap ∧ d'.limit ≤ d.limit ∧ d.raw.length < d'.cap ∧
    d'.info = d.info := by
  obtain ⟨r, hr, hle, rfl, hlt⟩ := reserveCurrentChunk_shape h
  refine ⟨?_, Nat.le_max_left _ _, Nat.sub_le _ _, hlt, rfl⟩
  simp only
  omega

/-- with no budget left a full chunk buffer cannot grow: `LimitsExceeded` -/
theorem chunkbuf_full_no_budget (d : Dec) (hfull : d.raw.length = d.cap) (hl : d.limit ≤ d.cap) :
    reserveCurrentChunk d = .error .limits := by
  unfold reserveCurrentChunk
  simp only
  have h0 : min d.raw.length (d.limit - d.cap) = 0 := by omega
  rw [h0, if_neg (by omega)]
  simp only [Nat.sub_zero, Nat.add_zero]
  rw [if_pos (by omega)]

/-- **Monotonicity of every step**: `limit` never grows, `cap` never shrinks, the body collected so far stays
    within the buffer, and buffer growth is covered by the budget taken — for one `next_state` call and
    for whole runs (errors included) -/
theorem limit_antitone_cap_monotone (cfg : Cfg) :
    (∀ (d d' : Dec) (st : St) (buf : Bytes) (n : Nat) (ev : Ev), nextState cfg d st buf = .ok (n, ev, d') →
      d'.limit ≤ d.limit ∧ d.cap ≤ d'.cap ∧
      (d.raw.length ≤ d.cap → d'.raw.length ≤ d'.cap ∧ d'.cap - d.cap ≤ d.limit - d'.limit)) ∧
    (∀ (f : Nat) (d : Dec) (buf : Bytes),
      (run cfg f d buf).1.limit ≤ d.limit ∧ d.cap ≤ (run cfg f d buf).1.cap ∧
      (d.raw.length ≤ d.cap → (run cfg f d buf).1.cap - d.cap ≤ d.limit - (run cfg f d buf).1.limit)) := by
  refine ⟨fun d d' st buf n ev h => ?_, fun f d buf => ?_⟩
  · have hs := nextState_stepFrame h
    exact ⟨hs.limit, hs.cap, hs.paid⟩
  · have hs := run_stepFrame cfg f d buf
    exact ⟨hs.limit, hs.cap, fun hx => (hs.paid hx).2⟩

/-! ## (2) paid blobs, (3) unpaid blobs -/

/-- **Every chunk parser respects the ledger** (`LedgerStep`): the paid blobs (PLTE, tRNS, sBIT, ICC profile, text
    chunks) grow by at most what the parser takes from the budget; an eXIf copy is at most the chunk body (or
    what was there before: kept at most once); a bKGD copy at most 6 bytes.  For all twenty parsers at once, via
    `dispatch`, and for `parse_chunk` including swallowed benign failures (which may only take from the budget). -/
theorem blob_paid (cfg : Cfg) (d d' : Dec) (t : ChunkType) (ev : Ev) :
    (dispatch cfg d t = .ok (d', ev) → LedgerStep d d') ∧
    (parseChunk cfg d t = .ok (ev, d') → LedgerStep (d.atCrc t) d') :=
  ⟨dispatch_ledger, parseChunk_ledger⟩

/-- the individual accounted copies: each is charged in full (`paidOf d' + d'.limit ≤ paidOf d + d.limit`) -/
theorem blob_paid_PLTE (d d' : Dec) (ev : Ev) (h : parsePlte d = .ok (d', ev)) :
    paidOf d' + d'.limit ≤ paidOf d + d.limit := (parsePlte_ledger h).paid
theorem blob_paid_tRNS (d d' : Dec) (ev : Ev) (h : parseTrns d = .ok (d', ev)) :
    paidOf d' + d'.limit ≤ paidOf d + d.limit := (parseTrns_ledger h).paid
theorem blob_paid_sBIT (d d' : Dec) (ev : Ev) (h : parseSbit d = .ok (d', ev)) :
    paidOf d' + d'.limit ≤ paidOf d + d.limit := (parseSbit_ledger h).paid
theorem blob_paid_iCCP (cfg : Cfg) (d d' : Dec) (ev : Ev) (h : parseIccp cfg d = .ok (d', ev)) :
    paidOf d' + d'.limit ≤ paidOf d + d.limit := (parseIccp_ledger h).paid
theorem blob_paid_tEXt (d d' : Dec) (ev : Ev) (h : parseText d = .ok (d', ev)) :
    paidOf d' + d'.limit ≤ paidOf d + d.limit := (parseText_ledger h).paid
theorem blob_paid_zTXt (d d' : Dec) (ev : Ev) (h : parseZtxt d = .ok (d', ev)) :
    paidOf d' + d'.limit ≤ paidOf d + d.limit := (parseZtxt_ledger h).paid
theorem blob_paid_iTXt (cfg : Cfg) (d d' : Dec) (ev : Ev) (h : parseItxt cfg d = .ok (d', ev)) :
    paidOf d' + d'.limit ≤ paidOf d + d.limit := (parseItxt_ledger h).paid

/-- **eXIf and bKGD are copied without being charged, but bounded**: the eXIf copy is at most the chunk body
    (≤ chunk buffer capacity), the bKGD copy at most 6 bytes; both are kept at most once (a later chunk
    does not replace or add: `C16.first_wins_silent`), and neither touches the budget or the paid blobs -/
theorem unpaid_bounded (d d' : Dec) (ev : Ev) :
    (parseExif d = .ok (d', ev) →
      exifLen d' ≤ max (exifLen d) d.raw.length ∧ paidOf d' = paidOf d ∧ d'.limit = d.limit ∧ bkgdLen d' = bkgdLen d) ∧
    (parseBkgd d = .ok (d', ev) →
      bkgdLen d' ≤ max (bkgdLen d) 6 ∧ paidOf d' = paidOf d ∧ d'.limit = d.limit ∧ exifLen d' = exifLen d) := by
  constructor
  · intro h
    refine ⟨(parseExif_ledger h).exif, ?_⟩
    unfold parseExif at h
    simp only [withInfo] at h
    repeat' split at h
    all_goals first
      | (cases h; done)
      | (cases h; exact ⟨rfl, rfl, rfl⟩)
      | (cases h; rename_i i hi _; simp [paidOf, bkgdLen, setInfo, hi, Info.paidBlobs])
  · intro h
    refine ⟨(parseBkgd_ledger h).bkgd, ?_⟩
    unfold parseBkgd at h
    simp only [withInfo] at h
    repeat' split at h
    all_goals first
      | (cases h; done)
      | (cases h; exact ⟨rfl, rfl, rfl⟩)
      | (cases h; rename_i i hi _ _ _ _ _; simp [paidOf, exifLen, setInfo, hi, Info.paidBlobs])

/-! ## (4) the ledger invariant -/

/-- **The ledger invariant holds along every run** from a decoder created with budget `L`: `LedgerInv L` is true
    initially, is preserved by every successful `next_state` call, and therefore holds for the decoder
    after any run (also one that ended in an error) -/
theorem ledger_invariant (cfg : Cfg) (L : Nat) :
    (∀ opts, LedgerInv L { Dec.new opts with limit := L }) ∧
    (∀ (d d' : Dec) (st : St) (buf : Bytes) (n : Nat) (ev : Ev), LedgerInv L d →
      nextState cfg d st buf = .ok (n, ev, d') → LedgerInv L d') ∧
    (∀ (f : Nat) (d : Dec) (buf : Bytes), LedgerInv L d → LedgerInv L (run cfg f d buf).1) :=
  ⟨fun opts => ledgerInv_new opts L, fun _ _ _ _ _ _ hi h => nextState_ledgerInv hi h, run_ledgerInv cfg L⟩

/-- **C06 for the framing layer**: for every input and every budget `L`, after any run from a new decoder,
    what the framing layer holds is within a fixed linear function of the budget actually spent, hence of
    `L`: slope 2, constant `2·CHUNK_BUFFER_SIZE + 6`.  It does not depend on declared chunk lengths, declared
    dimensions or the decompressed size of anything.  (Running out of budget shows up as the `Limits` error
    of the step that would have exceeded it; the bound holds for the decoder left behind as well.) -/
theorem C06_ledger (cfg : Cfg) (opts : Options) (L : Nat) (f : Nat) (buf : Bytes) :
    let d := (run cfg f { Dec.new opts with limit := L } buf).1
    d.limit ≤ L ∧ held d ≤ 2 * (Params.chunkBufferSize + (L - d.limit)) + 6 ∧
    held d ≤ 2 * L + (2 * Params.chunkBufferSize + 6) := by
  have hinv := run_ledgerInv cfg L f _ buf (ledgerInv_new opts L)
  have h1 := held_le_of_ledgerInv hinv
  refine ⟨hinv.limit, h1, ?_⟩
  omega

/-- the same through the model's caller loop `feed` (which is `run`) -/
theorem C06_ledger_feed (cfg : Cfg) (opts : Options) (L : Nat) (buf : Bytes) :
    let d := (feed cfg (5 * buf.length + 5) { Dec.new opts with limit := L } buf []).1
    d.limit ≤ L ∧ held d ≤ 2 * L + (2 * Params.chunkBufferSize + 6) := by
  rw [feed_eq_runF cfg _ buf _ (Nat.le_refl _)]
  have := C06_ledger cfg opts L (mu { Dec.new opts with limit := L } buf + 1) buf
  exact ⟨this.1, this.2.2⟩

/-! ## non-vacuity -/
section examples
open Png.Framing.Toy

/-- a chunk with the toy CRC (0) -/
def chunk (t : ChunkType) (body : Bytes) : Bytes := be32Bytes body.length ++ typeBytes t ++ body ++ [0, 0, 0, 0]

/-- PLTE (3 bytes), tEXt (5-byte body → 4 stored bytes), eXIf (4 bytes, unpaid), with budget 100:
    held = 32768 + 3 + 4 + 4, spent = 3 + 5 -/
example :
    let d := (runF toyCfg { Dec.new {} with limit := 100 }
      (sig ++ ihdr ++ chunk PLTE [1, 2, 3] ++ chunk tEXt [97, 98, 0, 99, 100] ++ chunk eXIf [77, 77, 0, 42])).1
    held d = 32768 + 11 ∧ d.limit = 92 ∧ paidOf d = 7 ∧ exifLen d = 4 := by
  decide +kernel

/-- under budget 4 the tEXt chunk is `LimitsExceeded` (after PLTE took 3) -/
example :
    (runF toyCfg { Dec.new {} with limit := 4 }
      (sig ++ ihdr ++ chunk PLTE [1, 2, 3] ++ chunk tEXt [97, 98, 0, 99, 100])).2.2 = some .limits := by
  decide +kernel

end examples
end Png.C06
