import PngVerif.Generated.KernelsParsersApng
import PngVerif.Proofs.KernelParserTactic
import PngVerif.Props.KernelsStream
/-!
# Tie A, part 2 (translator): the animation chunk parsers of `StreamingDecoder` (`src/decoder/stream.rs`)

`Generated/KernelsParsersApng.lean` is rewritten by `tools/rs2lean.py` from the Rust source on every run: `parse_actl`, `parse_fctl`, and
three arms of `parse_u32` (the fdAT sequence-number check `U32ValueKind::ApngSequenceNumber`, and the arms `chunk::fdAT` / `IDAT` that
decide whether a data chunk may begin).

How a translated parser sees the decoder: the chunk body `self.current_chunk.raw_bytes` is the parameter `body : List Int`; a
`buf.read_be()?` of width w at the (constant) offset k is `if k + w ≤ body.length then .. Gen.beU<8w> body k .. else <ChunkTooShort>`; the
scalar state it reads are further parameters (`have_idat`, `current_seq_no : Option<u32>`, `info.is_some`, the canvas size, the old
`frame_control`); the result is `(error code, tag of the Decoded event, the event's payload, the state afterwards ..)` with code 0 = `Ok`,
k = position of the `FormatErrorInner` in the kernel's `errors` list.  `interp..` below says what such a result means in the framing
model; the theorems say `Framing.parse.. d = interp.. d (translated parser on d's bytes and state)` for EVERY body (every length, every
byte) and every state: same error class and name, same event with the same payload, same stored values, same flags.

What the two seeded changes do here: swapping the dispose / blend reads (C09_5) changes `Gen.parse_fctl` so that `kernel_parse_fctl_*`
fail (see the examples at the end for an input on which the results differ); dropping the `!= 0` test of the first fcTL (C10_5) likewise.
-/
namespace Png.Kernels
open Png Png.Framing

/-! ## acTL -/

/-- result of the translated `parse_actl`: `(code, event tag, event payload (num_frames, num_plays), animation_control.is_some, its two fields)`;
    code 0 = `Ok(Decoded::AnimationControl(..))`, 1 = `ChunkTooShort` (the model's `eof`), 2 = `AfterIdat` -/
def interpActl (d : Dec) : Int × Int × Int × Int × Bool × Int × Int → PRes
  | (code, _tag, e0, e1, _s, nf, np) =>
    if code = 0 then .ok (setInfo d (fun i => { i with actl := some (nf.toNat, np.toNat) }), .animationControl e0.toNat e1.toNat)
    else if code = 1 then .error .eof else .error (.format "AfterIdat acTL")

theorem kernel_parse_actl (d : Dec) (i : Info) (hi : d.info = some i) (a : Bool) (b c : Int) :
    parseActl d = interpActl d (Gen.parse_actl (bInt d.raw) d.haveIdat true a b c) := by
  unfold parseActl Gen.parse_actl
  parser_tie (interpActl d) [] [interpActl, hi]

/-! ## fcTL -/

/-- `Info::validate` on naturals (from `kernel_info_validate`): 0 = accepted -/
theorem info_validate_zero (iw ih w h x y : Nat) (hw : iw < 2 ^ 32) (hh : ih < 2 ^ 32) :
    Gen.Info_validate w h iw x ih y = 0 ↔ (¬ (w = 0 ∨ h = 0)) ∧ (x ≤ iw ∧ w ≤ iw - x) ∧ (y ≤ ih ∧ h ≤ ih - y) := by
  have := (kernel_info_validate { width := iw, height := ih, depth := 8, color := 0, interlaced := false }
    { seq := 0, width := w, height := h, x := x, y := y, delayNum := 0, delayDen := 0, dispose := 0, blend := 0 } hw hh).1
  simp only [fctlInBounds] at this
  rw [this]
  by_cases h1 : w = 0 <;> by_cases h2 : h = 0 <;> simp [h1, h2]

/-- 1 = `InvalidDimensions` (otherwise 2 = `BadSubFrameBounds`) -/
theorem info_validate_one (iw ih w h x y : Nat) (hw : iw < 2 ^ 32) (hh : ih < 2 ^ 32) :
    Gen.Info_validate w h iw x ih y = 1 ↔ (w = 0 ∨ h = 0) := by
  have := (kernel_info_validate { width := iw, height := ih, depth := 8, color := 0, interlaced := false }
    { seq := 0, width := w, height := h, x := x, y := y, delayNum := 0, delayDen := 0, dispose := 0, blend := 0 } hw hh).1
  rw [this]
  by_cases h1 : w = 0 <;> by_cases h2 : h = 0 <;> simp [h1, h2]
  split <;> simp

/-- `self.inflater.reset()` in the model -/
def applyReset (b : Bool) (d : Dec) : Dec := if b then { d with zin := [], zstarted := false, zemitted := 0 } else d

/-- result of the translated `parse_fctl`: `(code, event tag, the nine fields of the event's frame control, current_seq_no afterwards,
    ready_for_fdat_chunks afterwards, "inflater.reset() was called", frame_control.is_some, its nine fields afterwards)`; 1 = `ChunkTooShort`,
    2 = `ApngOrder`, 3 = `InvalidDisposeOp`, 4 = `InvalidBlendOp`, 5 = `InvalidDimensions`, 6 = `BadSubFrameBounds` -/
def interpFctl (d : Dec) : Int × Int × Int × Int × Int × Int × Int × Int × Int × Int × Int × Option Int × Bool × Bool × Bool × Int × Int × Int × Int × Int × Int × Int × Int × Int → PRes
  | (code, _tag, e0, e1, e2, e3, e4, e5, e6, e7, e8, seq, ready, reset, _s, f0, f1, f2, f3, f4, f5, f6, f7, f8) =>
    if code = 0 then
      .ok (setInfo (applyReset reset { d with seqNo := seq.map Int.toNat, readyFdat := ready })
             (fun i => { i with fctl := some { seq := f0.toNat, width := f1.toNat, height := f2.toNat, x := f3.toNat, y := f4.toNat,
                                                delayNum := f5.toNat, delayDen := f6.toNat, dispose := f7.toNat, blend := f8.toNat } }),
           .frameControl { seq := e0.toNat, width := e1.toNat, height := e2.toNat, x := e3.toNat, y := e4.toNat,
                           delayNum := e5.toNat, delayDen := e6.toNat, dispose := e7.toNat, blend := e8.toNat })
    else if code = 1 then .error .eof
    else if code = 2 then .error (.format "ApngOrder")
    else if code = 3 then .error (.format "InvalidDisposeOp")
    else if code = 4 then .error (.format "InvalidBlendOp")
    else if code = 5 then .error (.format "InvalidDimensions")
    else .error (.format "BadSubFrameBounds")

theorem kernel_parse_fctl_first (d : Dec) (i : Info) (hi : d.info = some i) (hw : i.width < 2 ^ 32) (hh : i.height < 2 ^ 32)
    (hq : d.seqNo = none) (fs : Bool) (f0 f1 f2 f3 f4 f5 f6 f7 f8 : Int) :
    parseFctl d = interpFctl d (Gen.parse_fctl (bInt d.raw) none d.readyFdat true i.width i.height fs f0 f1 f2 f3 f4 f5 f6 f7 f8) := by
  unfold parseFctl Gen.parse_fctl
  parser_tie (interpFctl d) [info_validate_zero _ _ _ _ _ _ hw hh, info_validate_one _ _ _ _ _ _ hw hh, hq]
    [interpFctl, applyReset, fctlInBounds, hi, hq]

set_option maxHeartbeats 400000 in
theorem kernel_parse_fctl_next (d : Dec) (i : Info) (hi : d.info = some i) (hw : i.width < 2 ^ 32) (hh : i.height < 2 ^ 32)
    (s : Nat) (hq : d.seqNo = some s) (hs : s + 1 < 2 ^ 32) (fs : Bool) (f0 f1 f2 f3 f4 f5 f6 f7 f8 : Int) :
    parseFctl d = interpFctl d (Gen.parse_fctl (bInt d.raw) (some (s : Int)) d.readyFdat true i.width i.height fs f0 f1 f2 f3 f4 f5 f6 f7 f8) := by
  unfold parseFctl Gen.parse_fctl
  parser_tie (interpFctl d) [info_validate_zero _ _ _ _ _ _ hw hh, info_validate_one _ _ _ _ _ _ hw hh, hq]
    [interpFctl, applyReset, fctlInBounds, hi, hq]

/-- `parse_fctl` (stream.rs) = `Framing.parseFctl`, for every chunk body, every sequence-number state (`None` before the first fcTL) and
    every header size: same error (class and name), same event, same stored frame control, sequence number, `ready_for_fdat_chunks`, and
    the inflater reset.  The model's explicit panic "`seq_no + 1` overflows `u32`" is the excluded case `hs` (see `kernel_parse_fctl_ok`). -/
theorem kernel_parse_fctl (d : Dec) (i : Info) (hi : d.info = some i) (hw : i.width < 2 ^ 32) (hh : i.height < 2 ^ 32)
    (hs : ∀ s, d.seqNo = some s → s + 1 < 2 ^ 32) (fs : Bool) (f0 f1 f2 f3 f4 f5 f6 f7 f8 : Int) :
    parseFctl d = interpFctl d (Gen.parse_fctl (bInt d.raw) (d.seqNo.map Int.ofNat) d.readyFdat true i.width i.height fs f0 f1 f2 f3 f4 f5 f6 f7 f8) := by
  cases hq : d.seqNo with
  | none => exact kernel_parse_fctl_first d i hi hw hh hq fs f0 f1 f2 f3 f4 f5 f6 f7 f8
  | some s => exact kernel_parse_fctl_next d i hi hw hh s hq (hs s hq) fs f0 f1 f2 f3 f4 f5 f6 f7 f8

/-- no panic in `parse_actl` / `parse_fctl`: `self.info` is `Some` (the caller's invariant after IHDR) and `seq_no + 1` fits `u32` -/
theorem kernel_parse_actl_fctl_ok (d : Dec) (i : Info) (hi : d.info = some i)
    (hs : ∀ s, d.seqNo = some s → s + 1 < 2 ^ 32) (a fs : Bool) (b c f0 f1 f2 f3 f4 f5 f6 f7 f8 : Int) :
    Gen.parse_actl_ok (bInt d.raw) d.haveIdat true a b c = true ∧
    Gen.parse_fctl_ok (bInt d.raw) (d.seqNo.map Int.ofNat) d.readyFdat true i.width i.height fs f0 f1 f2 f3 f4 f5 f6 f7 f8 = true := by
  constructor
  · unfold Gen.parse_actl_ok; parser_ok []
  · unfold Gen.parse_fctl_ok
    cases hq : d.seqNo with
    | none => parser_ok [Gen.Info_validate_ok]
    | some s => have := hs s hq; parser_ok [Gen.Info_validate_ok]

/-- where `seq_no + 1` does overflow, the translated function says so (`_ok` is false) and the model has its explicit panic -/
theorem kernel_parse_fctl_overflow (d : Dec) (hq : d.seqNo = some (2 ^ 32 - 1)) (hl : 4 ≤ d.raw.length) (r : Bool) (iw ih : Int) (fs : Bool)
    (f0 f1 f2 f3 f4 f5 f6 f7 f8 : Int) :
    Gen.parse_fctl_ok (bInt d.raw) (d.seqNo.map Int.ofNat) r true iw ih fs f0 f1 f2 f3 f4 f5 f6 f7 f8 = false ∧
    parseFctl d = .error (.panic "seq_no + 1 overflow (stream.rs:1053)") := by
  constructor
  · unfold Gen.parse_fctl_ok; simp [hq, hl]
  · unfold parseFctl; simp [hq, rdU32_of_le hl]

/-! ## fdAT: the sequence number (an arm of `parse_u32`), and the checks when an fdAT / IDAT chunk begins -/

/-- result of the translated arm `U32ValueKind::ApngSequenceNumber`: `(code, event tag, current_chunk.remaining afterwards, current_seq_no
    afterwards)`; 1 = `ApngOrder`, 2 = `MissingFctl`.  The CRC update and the next state are outside the translated part (declared
    `ignore_calls` / `ignore_assign`): the interpretation takes them from the model. -/
def interpFdatSeq (d : Dec) (b0 b1 b2 b3 : UInt8) : Int × Int × Int × Option Int → Except Err (Ev × Dec)
  | (code, _tag, rem, seq) =>
    if code = 0 then
      .ok (.partialChunk fdAT,
           { d with remaining := rem.toNat, seqNo := seq.map Int.toNat,
                    crcAcc := if d.opts.ignoreCrc then d.crcAcc else d.crcAcc ++ [b0, b1, b2, b3], state := some (.imageData fdAT) })
    else if code = 1 then .error (.format "ApngOrder") else .error (.format "MissingFctl")

theorem kernel_parse_u32_fdat_seq (cfg : Cfg) (d : Dec) (b0 b1 b2 b3 : UInt8) (hr : 4 ≤ d.remaining) (hr2 : d.remaining < 2 ^ 32)
    (hs : ∀ s, d.seqNo = some s → s + 1 < 2 ^ 32) :
    parseU32 cfg d .seqNo b0 b1 b2 b3 =
      interpFdatSeq d b0 b1 b2 b3 (Gen.parse_u32_fdat_seq (be32 b0 b1 b2 b3) (d.seqNo.map Int.ofNat) d.remaining d.opts.ignoreCrc) ∧
    (Gen.parse_u32_fdat_seq (be32 b0 b1 b2 b3) (d.seqNo.map Int.ofNat) d.remaining d.opts.ignoreCrc).2.1 =
      (if (Gen.parse_u32_fdat_seq (be32 b0 b1 b2 b3) (d.seqNo.map Int.ofNat) d.remaining d.opts.ignoreCrc).1 = 0 then 9 else 0) ∧
    Gen.parse_u32_fdat_seq_ok (be32 b0 b1 b2 b3) (d.seqNo.map Int.ofNat) d.remaining d.opts.ignoreCrc = true := by
  unfold parseU32 Gen.parse_u32_fdat_seq Gen.parse_u32_fdat_seq_ok
  cases hq : d.seqNo with
  | none => simp [interpFdatSeq]; omega
  | some s =>
    have := hs s hq
    have e1 : ((d.remaining : Int) - 4).toNat = d.remaining - 4 := by omega
    have e2 : ¬ 4294967295 ≤ s := by omega
    by_cases hv : be32 b0 b1 b2 b3 = s + 1
    · generalize be32 b0 b1 b2 b3 = v at *
      subst hv
      cases hc : d.opts.ignoreCrc <;> simp [interpFdatSeq, hc, e1, e2] <;> omega
    · -- both orientations of the comparison, so that the proof does not depend on how the source writes it
      have h1 : ¬ ((be32 b0 b1 b2 b3 : Nat) : Int) = (s : Int) + 1 := by omega
      have h2 : ¬ (s : Int) + 1 = ((be32 b0 b1 b2 b3 : Nat) : Int) := by omega
      simp [interpFdatSeq, hv, h1, h2, e2]; omega

/-- the arm `chunk::fdAT` of `parse_u32` (a chunk type has just been read): 1 = `UnexpectedRestartOfDataChunkSequence`,
    2 = `FdatShorterThanFourBytes`; result `(code, have_idat afterwards)` -/
def interpFdatBegin (d : Dec) : Int × Bool → Except Err (St × Dec)
  | (code, hi) =>
    if code = 0 then .ok (.u32 .seqNo [], { d with haveIdat := hi })
    else if code = 1 then .error (.format "UnexpectedRestartOfDataChunkSequence fdAT") else .error (.format "FdatShorterThanFourBytes")

theorem kernel_parse_u32_fdat_begin (d : Dec) (length : Nat) :
    afterType d fdAT length = interpFdatBegin d (Gen.parse_u32_fdat_begin length d.readyFdat d.haveIdat) := by
  unfold afterType Gen.parse_u32_fdat_begin interpFdatBegin
  cases d.readyFdat <;> by_cases h : length < 4
  all_goals first
    | (have h' : (length : Int) < 4 := by omega
       simp [h, h'])
    | (have h' : ¬ (length : Int) < 4 := by omega
       simp [h, h'])

/-- the arm `IDAT` of `parse_u32`: 1 = `UnexpectedRestartOfDataChunkSequence` -/
def interpIdatBegin (d : Dec) : Int × Bool → Except Err (St × Dec)
  | (code, hi) =>
    if code = 0 then .ok (.imageData IDAT, { d with haveIdat := hi }) else .error (.format "UnexpectedRestartOfDataChunkSequence IDAT")

theorem kernel_parse_u32_idat_begin (d : Dec) (length : Nat) :
    afterType d IDAT length = interpIdatBegin d (Gen.parse_u32_idat_begin d.readyIdat d.haveIdat) := by
  have : IDAT ≠ fdAT := by decide
  unfold afterType Gen.parse_u32_idat_begin interpIdatBegin
  cases d.readyIdat <;> simp [this]

/-! ## examples on concrete chunk bodies -/

-- acTL: 3 frames, play forever; one byte short; after IDAT
example : Gen.parse_actl [0,0,0,3, 0,0,0,0] false true false 0 0 = (0, 5, 3, 0, true, 3, 0) := by decide
example : (Gen.parse_actl [0,0,0,3, 0,0,0] false true false 0 0).1 = 1 := by decide
example : (Gen.parse_actl [0,0,0,3, 0,0,0,0] true true false 0 0).1 = 2 := by decide
-- fcTL: the first one (sequence number 0) on a 4x4 canvas: 2x2 at (1,2), delay 1/10, dispose 2 (Previous), blend 1 (Over)
example : Gen.parse_fctl [0,0,0,0, 0,0,0,2, 0,0,0,2, 0,0,0,1, 0,0,0,2, 0,1, 0,10, 2, 1] none false true 4 4 false 0 0 0 0 0 0 0 0 0 =
    (0, 6, 0, 2, 2, 1, 2, 1, 10, 2, 1, some 0, true, true, true, 0, 2, 2, 1, 2, 1, 10, 2, 1) := by rfl
-- dispose 2 is legal, blend 2 is not (a reader that swaps the two bytes answers differently: seeded change C09_5)
example : (Gen.parse_fctl [0,0,0,0, 0,0,0,2, 0,0,0,2, 0,0,0,1, 0,0,0,2, 0,1, 0,10, 2, 2] none false true 4 4 false 0 0 0 0 0 0 0 0 0).1 = 4 := by decide
example : (Gen.parse_fctl [0,0,0,0, 0,0,0,2, 0,0,0,2, 0,0,0,1, 0,0,0,2, 0,1, 0,10, 3, 0] none false true 4 4 false 0 0 0 0 0 0 0 0 0).1 = 3 := by decide
-- the first fcTL must have sequence number 0 (seeded change C10_5), later ones the successor; the rectangle must be non-empty and fit
example : (Gen.parse_fctl [0,0,0,1, 0,0,0,2, 0,0,0,2, 0,0,0,1, 0,0,0,2, 0,1, 0,10, 0, 0] none false true 4 4 false 0 0 0 0 0 0 0 0 0).1 = 2 := by decide
example : (Gen.parse_fctl [0,0,0,5, 0,0,0,2, 0,0,0,2, 0,0,0,1, 0,0,0,2, 0,1, 0,10, 0, 0] (some 4) false true 4 4 false 0 0 0 0 0 0 0 0 0).1 = 0 := by decide
example : (Gen.parse_fctl [0,0,0,5, 0,0,0,2, 0,0,0,2, 0,0,0,1, 0,0,0,3, 0,1, 0,10, 0, 0] (some 4) false true 4 4 false 0 0 0 0 0 0 0 0 0).1 = 6 := by decide
example : (Gen.parse_fctl [0,0,0,5, 0,0,0,0, 0,0,0,2, 0,0,0,1, 0,0,0,3, 0,1, 0,10, 0, 0] (some 4) false true 4 4 false 0 0 0 0 0 0 0 0 0).1 = 5 := by decide
example : (Gen.parse_fctl [0,0,0,5, 0,0,0,2, 0,0,0,2, 0,0,0,1, 0,0,0,2, 0,1, 0,10, 0] (some 4) false true 4 4 false 0 0 0 0 0 0 0 0 0).1 = 1 := by decide
-- fdAT: sequence number 7 after 6; 8 after 6; without an fcTL; a chunk shorter than four bytes; a restart of the sequence
example : Gen.parse_u32_fdat_seq 7 (some 6) 20 false = (0, 9, 16, some 7) := by decide
example : (Gen.parse_u32_fdat_seq 8 (some 6) 20 false).1 = 1 ∧ (Gen.parse_u32_fdat_seq 8 none 20 false).1 = 2 := by decide
example : Gen.parse_u32_fdat_begin 3 true false = (2, false) ∧ Gen.parse_u32_fdat_begin 4 true false = (0, true) ∧
    Gen.parse_u32_fdat_begin 4 false false = (1, false) := by decide

end Png.Kernels
