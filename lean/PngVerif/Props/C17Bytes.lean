import PngVerif.Proofs.MetaBytesAnimFile
import PngVerif.Proofs.MetaBytesFields
import PngVerif.Props.C03RoundTrip
/-!
# C17 at the byte level — the metadata the encoder model writes is what the decoder model reports after reading the file

`Props/C17.lean` proves the round trip chunk by chunk against the CHUNK-LEVEL decoder model `EncodeMeta.feedChunk`
(`parse_chunk` on a decoder that holds the body).  This file ties that model to the BYTE-LEVEL machine of
`Model/Framing.lean` and to the `Reader` model, and composes it with the writer model of `Model/Encoder.lean`:

* `C17_parse_call_is_feedChunk`, `C17_feedChunk_is_parse_chunk`, `C17_step_iff_feedChunk`: `feedChunk` IS the `parse_chunk`
  layer of the byte-level machine — for every chunk type that may stand between `IHDR` and the image data (everything but
  `IHDR`, `IDAT`, `fdAT`, `IEND`, `fcTL`: in particular PLTE, tRNS, gAMA, cHRM, sRGB, iCCP, pHYs, eXIf, cICP, mDCV, cLLI, sBIT,
  bKGD, tEXt, zTXt, iTXt, acTL and unknown types) and EVERY body.  The abstraction from the byte-level decoder to the chunk-level
  one is `EncodeMeta.ms` (`info`, `haveIdat`, `haveIccp`, `limit`, `opts`, `seqNo`: everything a parser reads or writes); what
  the chunk-level model leaves out is exactly the growth of the chunk buffer, which the byte-level machine charges to the
  limit BEFORE `parse_chunk` runs (`growCap`): `feedChunk` is run with the limit after that charge.
* `C17_feedChunks_bytes`: a run of `feedChunks` is matched by the byte-level machine when the limit left at the end covers
  three times the chunk bodies (the only way the two can part is the limit).
* `C17_header_bytes`: the conclusion of `C17_header_roundtrip` for the byte-level machine reading the serialised header
  chunks (`acTL` included).
* `C17_file_roundtrip`: the conclusion of `C17_header_roundtrip` for `Reader::read_info` on THE BYTES the writer model leaves in
  its sink after `write_header`, `write_image_data`, `finish`; `C17_file_any_idat_split` (any cut of the image data),
  `C17_stream_file_roundtrip` (through an owned `StreamWriter`); field by field: `C17_file_fields_statement` (false as it
  stands), `C17_file_fields_partial` (for `Clean` configurations), `C17_file_fields_counterexample`.
* `C17_encoder_models_agree`: the value-level model of `encode_header` (`Model/EncodeMeta.lean`) and the writer model
  (`Model/Encoder.lean`) write the same chunks.
* `C17_fctl_bytes` (`fcTL`: `feedChunk` against the byte-level machine), `C17_animated_read_info` (`read_info` on a stream of the
  encoder's animated layout), `C17_anim_file_roundtrip` (`read_info` on THE BYTES of an animated writer run: `acTL` values and the
  first frame control).

The chunk-level model parses empty chunks when `EncodeMeta.parseEmptyChunks = true`; `Framing.afterType` does (an empty chunk
goes to `ParseChunkData`), so the two agree on empty bodies only for that value of the switch: `parseEmptyChunks_now`.
With the switch off, every statement below still holds for non-empty bodies (`MetaBytes.not_skipped`).
-/
namespace Png.C17
open Png Png.Framing Png.EncodeMeta Png.WellFormed Png.RoundTrip Png.MetaBytes Png.Val Png.Enc Png.Reader

/-- the switch of `Model/EncodeMeta.lean` has the value that `Model/Framing.lean` implements -/
theorem parseEmptyChunks_now : parseEmptyChunks = true := rfl

/-! ## 1. `feedChunk` is the `parse_chunk` layer of the byte-level machine -/

/-- **The `parse_chunk` call.**  `D`: the byte-level decoder between two chunks; `(t, body)`: a chunk of any type but `fcTL`,
    any body; `cap'`, `limit'`: the chunk buffer's capacity and the limit when the body has been collected.  The decoder on
    which the byte-level machine then calls `parse_chunk` (`atCall`: `curType`, `crcAcc`, `remaining`, `raw`, `cap` as the
    collection left them) and `feedChunk` on `D` with the limit `limit'` have the same outcome: the same error, or the same
    `info`, `haveIdat`, `haveIccp`, `limit`, `opts`, `seqNo`. -/
theorem C17_parse_call_is_feedChunk (cfg : Framing.Cfg) (D : Dec) (t : ChunkType) (body : Bytes) (cap' limit' : Nat)
    (ht : t ≠ fcTL) :
    (parseChunk cfg (atCall D t body cap' limit') t).map (fun p => ms p.2) =
      (feedChunk cfg { D with limit := limit' } (t, body)).map ms :=
  parse_call_eq_feedChunk cfg D t body cap' limit' ht (not_skipped body (Or.inr parseEmptyChunks_now))

/-- **The whole chunk, as bytes.**  In a between-chunks state `D` that has seen `IHDR` (`IdleF D c fo`: state `U32 Length`,
    `info = some i` with the header fields `c` and the frame control `fo`, no data-chunk sequence begun) whose chunk buffer
    is not empty, for a chunk `(t, body)` of a type that may stand there (`TypeOk`: not `IHDR`, `IDAT`, `fdAT`, `IEND`, `fcTL`;
    a `u32`) with a body shorter than `2^32`: if the limit lets the chunk buffer grow to the body
    (`growCap … = some (cap', limit')`: `(D.cap, D.limit)` when the body fits, else doubling rounds charged to the limit) and
    `feedChunk` with what is then left of the limit gives `dF`, then successive `update` calls on
    `chunk cfg t body` (length, type, body, CRC) followed by anything report no image data (`AncTrace`) and end between two
    chunks in a decoder `D'` with `ms D' = ms dF`: its `info` (and `limit`, flags, options, sequence number) is exactly
    `feedChunk`'s. -/
theorem C17_feedChunk_is_parse_chunk (cfg : Framing.Cfg) (hC : cfg.CrcOk) {D dF : Dec} {c : Nat × Nat × Nat × Nat × Bool}
    {fo : Option FrameControl} {t : ChunkType} {body : Bytes} {cap' limit' : Nat}
    (hd : IdleF D c fo) (hcap0 : 0 < D.cap) (ht : TypeOk t) (hlen : body.length < 2 ^ 32)
    (hg : growCap body.length (body.length + 1) D.cap D.limit = some (cap', limit'))
    (hf : feedChunk cfg { D with limit := limit' } (t, body) = .ok dF) :
    ∃ D', AncTrace cfg D (chunk cfg t body) D' ∧ IdleF D' c fo ∧ ms D' = ms dF ∧ D'.cap = cap' :=
  feedChunk_is_parse_chunk cfg hC hd hcap0 ht hlen (not_skipped body (Or.inr parseEmptyChunks_now)) hg hf

/-- … and conversely: the byte-level step over the chunk (`AncStepG`: the chunk is collected and `parse_chunk` accepts it)
    exists exactly when `feedChunk`, after the growth of the chunk buffer, accepts it; the decoder afterwards is `feedChunk`'s
    with the framing fields filled in (`byteView`) -/
theorem C17_step_iff_feedChunk (cfg : Framing.Cfg) (D D' : Dec) (t : ChunkType) (body : Bytes) (ht : TypeOk t)
    (hlen : body.length < 2 ^ 32) :
    AncStepG cfg D t body D' ↔
      ∃ cap' limit' dF, growCap body.length (body.length + 1) D.cap D.limit = some (cap', limit') ∧
        feedChunk cfg { D with limit := limit' } (t, body) = .ok dF ∧ D' = byteView D t body cap' dF :=
  ancStepG_iff_feedChunk cfg D D' t body ht hlen (not_skipped body (Or.inr parseEmptyChunks_now))

/-- what the chunk-level abstraction keeps of a byte-level decoder after a chunk, and how large its chunk buffer is -/
theorem C17_byteView (D : Dec) (t : ChunkType) (body : Bytes) (cap' : Nat) (dF : Dec) :
    ms (byteView D t body cap' dF) = ms dF ∧ (byteView D t body cap' dF).cap = cap' ∧
    (byteView D t body cap' dF).state = some (.u32 .length []) ∧ (byteView D t body cap' dF).curType = t :=
  ⟨rfl, rfl, rfl, rfl⟩

/-- the growth of the chunk buffer: none when the body fits (32 KiB at first); in any case possible, and costing at most twice
    the body, when the limit is three times the body -/
theorem C17_growCap (L cap limit : Nat) :
    (L ≤ cap → growCap L (L + 1) cap limit = some (cap, limit)) ∧
    (0 < cap → 3 * L ≤ limit → ∃ cap' limit', growCap L (L + 1) cap limit = some (cap', limit') ∧ cap ≤ cap' ∧
      limit ≤ limit' + 2 * L ∧ limit' ≤ limit) := by
  constructor
  · intro h; unfold growCap; rw [if_pos h]
  · intro h1 h2; exact growCap_ok L cap limit h1 h2

/-- **A run of the chunk-level model, matched by the byte-level machine.**  `d`: chunk-level decoder, `D`: byte-level decoder
    with the same metadata fields and `K` less of the limit (`Rel K d D`); `cs`: chunks of types that may stand between `IHDR`
    and the image data, bodies shorter than `2^32`; the inflater behind `iCCP` honours its bound (`Cfg.BoundedOk`).  If
    `feedChunks` accepts `cs` and leaves at least `K` plus three times the chunk bodies of the limit, the byte-level machine
    reads the same chunks (`AncChunksG`, hence as bytes: `anc_chunks_g`) and ends with the same metadata, at most twice the
    bodies more charged. -/
theorem C17_feedChunks_bytes (cfg : Framing.Cfg) (hB : cfg.BoundedOk) (cs : List Chunk)
    (hcs : ∀ c ∈ cs, TypeOk c.1 ∧ c.2.length < 2 ^ 32) (d D d' : Dec) (K : Nat) (hrel : Rel K d D) (hcap : 0 < D.cap)
    (hf : feedChunks cfg d cs = .ok d') (hK : K + 3 * bodyBytes cs ≤ d'.limit) :
    ∃ D' K', AncChunksG cfg D cs D' ∧ Rel K' d' D' ∧ K ≤ K' ∧ K' ≤ K + 2 * bodyBytes cs ∧ 0 < D'.cap :=
  sim_chain cfg hB cs (fun c hc => ⟨(hcs c hc).1, (hcs c hc).2, not_skipped _ (Or.inr parseEmptyChunks_now)⟩) d D d' K hrel hcap
    hf hK

/-- a decoder whose bounded inflater is a codec that satisfies its contract honours its bound -/
theorem C17_boundedOk {cfg : Framing.Cfg} {z : ZCodec} (hz : z.Ok) (hc : CfgAgrees cfg z) : cfg.BoundedOk :=
  boundedOk_of_agrees hz hc

/-! ## 2. The header, read by the byte-level machine -/

/-- **C17 for the stream decoder.**  The hypotheses of `C17_header_roundtrip` (any configuration `m` the encoder accepts,
    `acTL` included; codec contract; the decoder's inflater is that codec; text and ICC chunks not ignored), chunk bodies
    shorter than `2^32`, and a limit that covers what the parsers charge (`m.budget z`) plus three times the bytes of the
    chunk bodies after `IHDR`: the chunks are `IHDR` followed by `rest`; from the state after `IHDR` the byte-level machine reads
    the serialised chunks `rest` without image data (`AncTrace`) and stands between two chunks (`IdleF`) with an `Info` that
    is `expectedInfo m` but for the text chunks, which are presented as `expectedViews z m` — the conclusion of
    `C17_header_roundtrip`; at most `budget + 2·|bodies|` of the limit is used. -/
theorem C17_header_bytes (cfg : Framing.Cfg) (hC : cfg.CrcOk) (z : ZCodec) (hz : z.Ok) (hc : CfgAgrees cfg z) (m : MetaConfig)
    (hr : m.InRange) (cs : List Chunk) (h : encodeHeaderChunks z m = .ok cs) (hlen : ∀ c ∈ cs, c.2.length < 2 ^ 32)
    (opts : Options) (ho1 : opts.ignoreText = false) (ho2 : opts.ignoreIccp = false)
    (limit : Nat) (hl : m.budget z + 3 * bodyBytes cs.tail ≤ limit) :
    ∃ rest dA i, cs = (Framing.IHDR, (hdrOf m).body) :: rest ∧
      AncTrace cfg (afterIhdr cfg opts limit (hdrOf m)) (chunks cfg rest) dA ∧ Idle dA (hdrOf m).info.core ∧
      dA.info = some i ∧ dA.haveIdat = false ∧
      { i with text := [] } = expectedInfo m ∧ i.text.map viewText = expectedViews z m ∧
      limit ≤ dA.limit + (m.budget z + 2 * bodyBytes rest) := by
  obtain ⟨rest, dA, tcs, h1, h2, h3, h4, h5, _, _, h8, _⟩ :=
    header_bytes cfg z hz hc m hr cs h hlen parseEmptyChunks_now opts ho1 ho2 limit hl
  obtain ⟨a1, a2, _⟩ := C01.ancillary_chunks_ok_any_length cfg hC opts limit (hdrOf m) rest dA h2
  exact ⟨rest, dA, _, h1, a1, a2, h3, h5, rfl, h4, h8⟩

/-! ## 3. The file -/

/-- **The two models of `encode_header` agree**: for every configuration in range that the value-level model accepts, the header
    chunks of the writer model for `encCfg z m …` (the same configuration with every item but `IHDR`, `acTL`, `PLTE`, `tRNS`
    given by its chunk body) are the value-level model's, and every text chunk's `encode` succeeded -/
theorem C17_encoder_models_agree (z : ZCodec) (m : MetaConfig) (fc : Option Enc.FC) (sep validate : Bool) (hr : m.InRange)
    (cs : List Chunk) (h : encodeHeaderChunks z m = .ok cs) :
    (Enc.headerChunks (encCfg z m fc sep validate)).map (fun c => (c.ty, c.data)) = cs ∧
    (Enc.textPrefix (encCfg z m fc sep validate).texts).2 = true :=
  encCfg_headerChunks z m fc sep validate hr cs h

/-- **C17, end to end at the byte level.**  For every still metadata configuration `m` the encoder accepts (`m.InRange`: typing;
    `encodeHeaderChunks z m = .ok cs`; no `acTL`; a palette if the colour type is indexed — `write_image_data` insists), the
    writer configuration `encCfg z m none sep validate` (either setting of `validate_sequence` / `sep_def_img`), every `data`
    of `height` rows, every filter choice and compressor as in `C03_encode_decode` (`hinf`, `hnil`, `hI`), the same CRC on both
    sides, a metadata codec `z` that satisfies its contract and is the decoder's bounded inflater / UTF-8 test (`CfgAgrees`),
    every identity transformation, decoder options that ignore neither text nor ICC chunks, chunk bodies shorter than `2^32`
    and a limit that covers one row, what the chunk parsers charge (`m.budget z`: the inflated profile, `PLTE`, `tRNS`, text
    bodies) and three times the bytes of the chunk bodies between `IHDR` and `IDAT`:

    `write_header`, `write_image_data(data)`, `finish` return `Ok`, and `read_info` on THE BYTES the sink then holds succeeds
    and leaves in the reader an `Info` that is `expectedInfo m` but for the text chunks, which `Info` presents as
    `expectedViews z m` — every configured item, as `C17_header_roundtrip` / `C17_srgb_override` / `C17_header_texts` spell out. -/
theorem C17_file_roundtrip (cfg : Framing.Cfg) (t : TCfg) (f : Flags) (opts : Options) (limit : Nat) (z : ZCodec)
    (compress : Bytes → Bytes) (choose : Bytes → Bytes → FilterType) (m : MetaConfig) (sep validate : Bool) (data : Bytes)
    (hI : cfg.InflateOk) (hcrc : ∀ b, cfg.crc b = crcOfList b) (ht : t.IsIdentity f)
    (hz : z.Ok) (hc : CfgAgrees cfg z)
    (hr : m.InRange) (cs : List Chunk) (h : encodeHeaderChunks z m = .ok cs) (hlen32 : ∀ c ∈ cs, c.2.length < 2 ^ 32)
    (ha : m.actl = none) (hpal : m.color = 3 → m.palette.isSome = true)
    (ho1 : opts.ignoreText = false) (ho2 : opts.ignoreIccp = false)
    (hlen : data.length = (encCfg z m none sep validate).rowLen * m.height)
    (hsz : (encCfg z m none sep validate).rowLen * m.height < 2 ^ 64)
    (hnil : ∀ o, cfg.inflate [] ≠ some (o, true))
    (hinf : cfg.inflate (compress (rawOf choose (encCfg z m none sep validate) data)) =
      some (rawOf choose (encCfg z m none sep validate) data, true))
    (hlimit : (encCfg z m none sep validate).rowLen + m.budget z + 3 * bodyBytes cs.tail ≤ limit) :
    (runWriter (scanCodec compress choose) (encCfg z m none sep validate) {} [.image data] .finish).header = .ok ∧
    (runWriter (scanCodec compress choose) (encCfg z m none sep validate) {} [.image data] .finish).results = [.ok] ∧
    (runWriter (scanCodec compress choose) (encCfg z m none sep validate) {} [.image data] .finish).final = some .ok ∧
    ∃ i,
      (Reader.run cfg t
        (R.init opts limit f
          (runWriter (scanCodec compress choose) (encCfg z m none sep validate) {} [.image data] .finish).state.sink.bytes
          (runWriter (scanCodec compress choose) (encCfg z m none sep validate) {} [.image data] .finish).state.sink.bytes.length)
        [.readInfo]).2 = [.header] ∧
      (Reader.run cfg t
        (R.init opts limit f
          (runWriter (scanCodec compress choose) (encCfg z m none sep validate) {} [.image data] .finish).state.sink.bytes
          (runWriter (scanCodec compress choose) (encCfg z m none sep validate) {} [.image data] .finish).state.sink.bytes.length)
        [.readInfo]).1.dec.info = some i ∧
      { i with text := [] } = expectedInfo m ∧ i.text.map viewText = expectedViews z m := by
  have hs := encCfg_still z m sep validate hr cs h ha hpal
  obtain ⟨r1, r2, r3, _⟩ := runWriter_still (scanCodec compress choose) (encCfg z m none sep validate) hs data hlen hsz
  obtain ⟨r, tcs, hrun, hinfo, hviews⟩ := file_read_info cfg t f opts limit z compress choose m sep validate data hI hcrc ht
    hz hc parseEmptyChunks_now hr cs h hlen32 ha hpal ho1 ho2 hlen hsz hnil hinf hlimit
  have e : (runWriter (scanCodec compress choose) (encCfg z m none sep validate) {} [.image data] .finish).state.sink.bytes =
      encoded compress choose (encCfg z m none sep validate) data := rfl
  rw [e, hrun]
  exact ⟨r1, r2, r3, { expectedInfo m with text := tcs }, rfl, hinfo, rfl, hviews⟩

/-- **C17 at the byte level for any cut of the image data**: the file with the header chunks of `m` and ANY cut `zs` (at least
    one piece, empty pieces allowed, each shorter than `2^32`) of ANY complete zlib stream into `IDAT` chunks — `read_info` does
    not look at the image data: the same `Info` -/
theorem C17_file_any_idat_split (cfg : Framing.Cfg) (t : TCfg) (f : Flags) (opts : Options) (limit : Nat) (z : ZCodec)
    (m : MetaConfig) (sep validate : Bool) (zs : List Bytes) (raw : Bytes)
    (hI : cfg.InflateOk) (hcrc : ∀ b, cfg.crc b = crcOfList b) (ht : t.IsIdentity f)
    (hz : z.Ok) (hc : CfgAgrees cfg z)
    (hr : m.InRange) (cs : List Chunk) (h : encodeHeaderChunks z m = .ok cs) (hlen32 : ∀ c ∈ cs, c.2.length < 2 ^ 32)
    (ha : m.actl = none) (hpal : m.color = 3 → m.palette.isSome = true)
    (ho1 : opts.ignoreText = false) (ho2 : opts.ignoreIccp = false)
    (hzs : zs ≠ []) (hzl : ∀ z' ∈ zs, z'.length < 2 ^ 32) (hinf : cfg.inflate zs.flatten = some (raw, true))
    (hsz : (encCfg z m none sep validate).rowLen * m.height < 2 ^ 64)
    (hlimit : (encCfg z m none sep validate).rowLen + m.budget z + 3 * bodyBytes cs.tail ≤ limit) :
    ∃ i,
      (Reader.run cfg t
        (R.init opts limit f
          (fileBytes (mkIhdr (encCfg z m none sep validate) :: metaChunks (encCfg z m none sep validate) ++ zs.map mkIdat ++
            [iendChunk]))
          (fileBytes (mkIhdr (encCfg z m none sep validate) :: metaChunks (encCfg z m none sep validate) ++ zs.map mkIdat ++
            [iendChunk])).length)
        [.readInfo]).2 = [.header] ∧
      (Reader.run cfg t
        (R.init opts limit f
          (fileBytes (mkIhdr (encCfg z m none sep validate) :: metaChunks (encCfg z m none sep validate) ++ zs.map mkIdat ++
            [iendChunk]))
          (fileBytes (mkIhdr (encCfg z m none sep validate) :: metaChunks (encCfg z m none sep validate) ++ zs.map mkIdat ++
            [iendChunk])).length)
        [.readInfo]).1.dec.info = some i ∧
      { i with text := [] } = expectedInfo m ∧ i.text.map viewText = expectedViews z m := by
  obtain ⟨r, tcs, hrun, hinfo, hviews⟩ := stillChunks_read_info cfg t f opts limit z m sep validate zs raw hI hcrc ht hz hc
    parseEmptyChunks_now hr cs h hlen32 ha hpal ho1 ho2 hzs hzl hinf hsz hlimit
  have e : mkIhdr (encCfg z m none sep validate) :: metaChunks (encCfg z m none sep validate) ++ zs.map mkIdat ++ [iendChunk] =
      stillChunks (encCfg z m none sep validate) zs := rfl
  rw [e, hrun]
  exact ⟨{ expectedInfo m with text := tcs }, rfl, hinfo, rfl, hviews⟩

/-- **C17 end to end through an owned `StreamWriter`**: `write_header`, `into_stream_writer_with_size(size)`, `write_all` of the
    pieces `ds` (any partition of `data`), `finish` — the hypotheses of `C03_stream_encode_decode` and of `C17_file_roundtrip`:
    every call returns `Ok`, and `read_info` on the sink's bytes leaves the same `Info` -/
theorem C17_stream_file_roundtrip (cfg : Framing.Cfg) (t : TCfg) (f : Flags) (opts : Options) (limit : Nat) (z : ZCodec)
    (E : Codec) (compress : Bytes → Bytes) (chooseZ : Bytes → Bytes → FilterType) (m : MetaConfig) (sep validate : Bool)
    (size : Nat) (ds : List Bytes) (data : Bytes)
    (hI : cfg.InflateOk) (hcrc : ∀ b, cfg.crc b = crcOfList b) (ht : t.IsIdentity f)
    (hz : z.Ok) (hc : CfgAgrees cfg z)
    (hr : m.InRange) (cs : List Chunk) (h : encodeHeaderChunks z m = .ok cs) (hlen32 : ∀ c ∈ cs, c.2.length < 2 ^ 32)
    (ha : m.actl = none) (hpal : m.color = 3 → m.palette.isSome = true)
    (ho1 : opts.ignoreText = false) (ho2 : opts.ignoreIccp = false)
    (hds : ds.flatten = data)
    (hlen : data.length = (encCfg z m none sep validate).rowLen * m.height)
    (hsz : (encCfg z m none sep validate).rowLen * m.height < 2 ^ 64)
    (hnil : ∀ o, cfg.inflate [] ≠ some (o, true))
    (hinf : cfg.inflate (compress (rawOf (chooseFirst chooseZ) (encCfg z m none sep validate) data)) =
      some (rawOf (chooseFirst chooseZ) (encCfg z m none sep validate) data, true))
    (hlimit : (encCfg z m none sep validate).rowLen + m.budget z + 3 * bodyBytes cs.tail ≤ limit) :
    (runProg E (scanZ compress chooseZ) (encCfg z m none sep validate) {} [] (.intoStream size (ds.map .write) .finish)).header =
      .ok ∧
    (runProg E (scanZ compress chooseZ) (encCfg z m none sep validate) {} [] (.intoStream size (ds.map .write) .finish)).final =
      .ok :: (ds.map fun _ => Enc.Res.ok) ++ [.ok] ∧
    ∃ i,
      (Reader.run cfg t
        (R.init opts limit f
          (runProg E (scanZ compress chooseZ) (encCfg z m none sep validate) {} []
            (.intoStream size (ds.map .write) .finish)).state.sink.bytes
          (runProg E (scanZ compress chooseZ) (encCfg z m none sep validate) {} []
            (.intoStream size (ds.map .write) .finish)).state.sink.bytes.length)
        [.readInfo]).1.dec.info = some i ∧
      { i with text := [] } = expectedInfo m ∧ i.text.map viewText = expectedViews z m := by
  have hs := encCfg_still z m sep validate hr cs h ha hpal
  obtain ⟨w, s1, w1, zs, hdone⟩ := session_done (scanZ compress chooseZ) (encCfg z m none sep validate) hs true size ds data hds
    hlen hsz
  obtain ⟨r1, r2, hlog⟩ := stream_owned_log E (scanZ compress chooseZ) (encCfg z m none sep validate) size ds data hdone
  have hchunks : headerChunks (encCfg z m none sep validate) ++ zs.map mkIdat ++ [iendChunk] =
      stillChunks (encCfg z m none sep validate) zs := by
    rw [headerChunks_still hs.actl]; rfl
  rw [hchunks] at hlog
  obtain ⟨hb, _⟩ := bytes_of_fullLog _ _ hlog
  have hflat := sessionDone_stream_scanZ hdone
  have hzne : compress (rawOf (chooseFirst chooseZ) (encCfg z m none sep validate) data) ≠ [] := by
    intro h0; rw [h0] at hinf; exact hnil _ hinf
  have hzs : zs ≠ [] := by
    intro h0; rw [h0] at hflat; exact hzne hflat.symm
  obtain ⟨r, tcs, hrun, hinfo, hviews⟩ := stillChunks_read_info cfg t f opts limit z m sep validate zs _ hI hcrc ht hz hc
    parseEmptyChunks_now hr cs h hlen32 ha hpal ho1 ho2 hzs
    (fun z' hz' => Nat.lt_of_le_of_lt (hdone.lens z' hz') (by decide)) (by rw [hflat]; exact hinf) hsz hlimit
  refine ⟨r1, r2, { expectedInfo m with text := tcs }, ?_, rfl, hviews⟩
  rw [hb, hrun]
  exact hinfo

/-- Full statement, field by field: EVERY still configuration the encoder accepts is read back from the file with its
    transparency as configured (in the decoder's form).  False: `C17_file_fields_counterexample`. -/
def C17_file_fields_statement : Prop :=
  ∀ (cfg : Framing.Cfg) (t : TCfg) (f : Flags) (opts : Options) (limit : Nat) (z : ZCodec)
    (compress : Bytes → Bytes) (choose : Bytes → Bytes → FilterType) (m : MetaConfig) (sep validate : Bool) (data : Bytes),
    cfg.InflateOk → (∀ b, cfg.crc b = crcOfList b) → t.IsIdentity f → z.Ok → CfgAgrees cfg z → m.InRange →
    ∀ (cs : List Chunk), encodeHeaderChunks z m = .ok cs → (∀ c ∈ cs, c.2.length < 2 ^ 32) →
    m.actl = none → (m.color = 3 → m.palette.isSome = true) → opts.ignoreText = false → opts.ignoreIccp = false →
    data.length = (encCfg z m none sep validate).rowLen * m.height →
    (encCfg z m none sep validate).rowLen * m.height < 2 ^ 64 →
    (∀ o, cfg.inflate [] ≠ some (o, true)) →
    cfg.inflate (compress (rawOf choose (encCfg z m none sep validate) data)) =
      some (rawOf choose (encCfg z m none sep validate) data, true) →
    (encCfg z m none sep validate).rowLen + m.budget z + 3 * bodyBytes cs.tail ≤ limit →
    ∃ i,
      (Reader.run cfg t
        (R.init opts limit f
          (runWriter (scanCodec compress choose) (encCfg z m none sep validate) {} [.image data] .finish).state.sink.bytes
          (runWriter (scanCodec compress choose) (encCfg z m none sep validate) {} [.image data] .finish).state.sink.bytes.length)
        [.readInfo]).1.dec.info = some i ∧
      i.trns = m.trns.map (trnsStored m.color m.depth)

/-- **C17 end to end, field by field** (the partial statement): under the hypotheses of `C17_file_roundtrip`, for a configuration
    whose transparency applies to its colour type (`Clean`: the excluded region is a `tRNS` given for a colour type with an
    alpha channel, for grayscale / RGB with fewer than 2 / 6 bytes, or for an indexed image without palette — the encoder writes
    it, the decoder skips it), the `Info` the reader holds after `read_info` on the encoder's file reports: the
    `IHDR` fields; pHYs; the sRGB intent; through `gamma()` / `chromaticities()` the configured values, or the substitutes
    when sRGB is set; the ICC profile, inflated (none with sRGB: not written); eXIf; no animation control; the palette; tRNS
    in the decoder's form; the text chunks in order -/
theorem C17_file_fields_partial (cfg : Framing.Cfg) (t : TCfg) (f : Flags) (opts : Options) (limit : Nat) (z : ZCodec)
    (compress : Bytes → Bytes) (choose : Bytes → Bytes → FilterType) (m : MetaConfig) (sep validate : Bool) (data : Bytes)
    (hI : cfg.InflateOk) (hcrc : ∀ b, cfg.crc b = crcOfList b) (ht : t.IsIdentity f)
    (hz : z.Ok) (hc : CfgAgrees cfg z)
    (hr : m.InRange) (hclean : Clean m) (cs : List Chunk) (h : encodeHeaderChunks z m = .ok cs)
    (hlen32 : ∀ c ∈ cs, c.2.length < 2 ^ 32)
    (ha : m.actl = none) (hpal : m.color = 3 → m.palette.isSome = true)
    (ho1 : opts.ignoreText = false) (ho2 : opts.ignoreIccp = false)
    (hlen : data.length = (encCfg z m none sep validate).rowLen * m.height)
    (hsz : (encCfg z m none sep validate).rowLen * m.height < 2 ^ 64)
    (hnil : ∀ o, cfg.inflate [] ≠ some (o, true))
    (hinf : cfg.inflate (compress (rawOf choose (encCfg z m none sep validate) data)) =
      some (rawOf choose (encCfg z m none sep validate) data, true))
    (hlimit : (encCfg z m none sep validate).rowLen + m.budget z + 3 * bodyBytes cs.tail ≤ limit) :
    ∃ i,
      (Reader.run cfg t
        (R.init opts limit f
          (runWriter (scanCodec compress choose) (encCfg z m none sep validate) {} [.image data] .finish).state.sink.bytes
          (runWriter (scanCodec compress choose) (encCfg z m none sep validate) {} [.image data] .finish).state.sink.bytes.length)
        [.readInfo]).1.dec.info = some i ∧
      i.width = m.width ∧ i.height = m.height ∧ i.depth = m.depth ∧ i.color = m.color ∧ i.interlaced = false ∧
      i.pixelDims = m.pixelDims.map (fun p => (p.xppu, p.yppu, if p.meter then 1 else 0)) ∧
      i.srgb = m.srgb ∧
      infoGamma i = (if m.srgb.isSome then some substituteGamma else m.gamma) ∧
      infoChroma i = (if m.srgb.isSome then some substituteChroma.toList else m.chroma.map Chromaticities.toList) ∧
      i.icc = (if m.srgb.isSome then none else m.icc) ∧
      i.exif = m.exif ∧ i.actl = none ∧ i.palette = m.palette ∧
      i.trns = m.trns.map (trnsStored m.color m.depth) ∧ i.fctl = none ∧
      i.text.map viewText = expectedViews z m := by
  obtain ⟨_, _, _, i, _, h2, h3, h4⟩ := C17_file_roundtrip cfg t f opts limit z compress choose m sep validate data hI hcrc ht
    hz hc hr cs h hlen32 ha hpal ho1 ho2 hlen hsz hnil hinf hlimit
  obtain ⟨f1, f2, f3, f4, f5, f6, f7, f8, f9, f10, f11, f12, f13, f14, f15⟩ := fields_of_expected m hclean i h3
  exact ⟨i, h2, f1, f2, f3, f4, f5, f6, f7, f8, f9, f10, f11, by rw [f12, ha], f13, f14, f15, h4⟩

/-! ## 4. Animation control and the first frame control -/

/-- **`fcTL`** — the chunk type `C17_feedChunk_is_parse_chunk` leaves out: under the hypotheses of `C17_fctl_roundtrip` (fields in
    their types' ranges, the sequence number the decoder expects next, the frame non-empty and inside the canvas), in a
    between-chunks state with room for the 26 bytes in the chunk buffer, `feedChunk` accepts `(fcTL, encodeFctl fc)` and the
    byte-level machine reads `chunk cfg fcTL (encodeFctl fc)` into a decoder with the same `info` — the `Info` before with the
    frame control stored —, `haveIdat`, `haveIccp`, `limit`, `opts` and `seqNo` -/
theorem C17_fctl_bytes (cfg : Framing.Cfg) (hC : cfg.CrcOk) {D : Dec} {c : Nat × Nat × Nat × Nat × Bool}
    {fo : Option FrameControl} (fc : FrameControl) (i : Info) (hi : D.info = some i) (hd : IdleF D c fo) (hcap : 26 ≤ D.cap)
    (hr : FcInRange fc) (hs : EncodeMeta.SeqOk D.seqNo fc.seq) (hb : FcInv i.width i.height fc) :
    ∃ dF D', feedChunk cfg D (fcTL, EncodeMeta.encodeFctl fc) = .ok dF ∧
      AncTrace cfg D (chunk cfg fcTL (EncodeMeta.encodeFctl fc)) D' ∧ IdleF D' c (some fc) ∧ ms D' = ms dF ∧
      dF.info = some { i with fctl := some fc } ∧ dF.seqNo = some fc.seq :=
  fctl_bytes cfg hC fc i hi hd hcap hr hs hb

/-- **`read_info` on an animated stream of the encoder's layout.**  The signature; the header chunks `cs` the encoder writes for
    ANY configuration `m` it accepts (`acTL` with `m.actl` among them, behind `eXIf` as `encode_header` orders them); the `fcTL`
    chunk `write_image_data` emits for the pending frame control `fc` (sequence number 0; fields in range; non-empty and inside
    the canvas — what the setters guarantee: `C17_fctl_setters`); `IDAT` chunks carrying a complete zlib stream; then anything
    that begins like a chunk other than `IDAT` (the next `fcTL`, or `IEND`).  With the decoder hypotheses of
    `C17_file_roundtrip`: `read_info` succeeds and the reader's `Info` is `expectedInfo m` — in particular
    `animation_control = m.actl` — with the frame control `fc` and the text chunks of `m`. -/
theorem C17_animated_read_info (cfg : Framing.Cfg) (t : TCfg) (f : Flags) (opts : Options) (limit : Nat) (z : ZCodec)
    (m : MetaConfig) (fc : FrameControl) (zs : List Bytes) (raw : Bytes) (len' t' : Nat) (rest' : Bytes)
    (hI : cfg.InflateOk) (hC : cfg.CrcOk) (ht : t.IsIdentity f) (hz : z.Ok) (hc : CfgAgrees cfg z)
    (hr : m.InRange) (cs : List Chunk) (h : encodeHeaderChunks z m = .ok cs)
    (hlen32 : ∀ c ∈ cs, c.2.length < 2 ^ 32)
    (hfr : FcInRange fc) (hfi : FcInv m.width m.height fc) (hf0 : fc.seq = 0)
    (ho1 : opts.ignoreText = false) (ho2 : opts.ignoreIccp = false)
    (hzs : zs ≠ []) (hzl : ∀ z' ∈ zs, z'.length < 2 ^ 32) (hinf : cfg.inflate zs.flatten = some (raw, true))
    (hlen' : len' < 2 ^ 32) (ht' : t' < 2 ^ 32) (hne' : t' ≠ IDAT)
    (hsize : (hdrOf m).lineSize * m.height < 2 ^ 64)
    (hlimit : (hdrOf m).lineSize + m.budget z + 3 * bodyBytes cs.tail ≤ limit) :
    ∃ i,
      (Reader.run cfg t
        (R.init opts limit f
          (signature ++ (chunks cfg cs ++ (chunk cfg fcTL (EncodeMeta.encodeFctl fc) ++ (idats cfg zs ++
            (be32Bytes len' ++ typeBytes t' ++ rest')))))
          (signature ++ (chunks cfg cs ++ (chunk cfg fcTL (EncodeMeta.encodeFctl fc) ++ (idats cfg zs ++
            (be32Bytes len' ++ typeBytes t' ++ rest'))))).length)
        [.readInfo]).2 = [.header] ∧
      (Reader.run cfg t
        (R.init opts limit f
          (signature ++ (chunks cfg cs ++ (chunk cfg fcTL (EncodeMeta.encodeFctl fc) ++ (idats cfg zs ++
            (be32Bytes len' ++ typeBytes t' ++ rest')))))
          (signature ++ (chunks cfg cs ++ (chunk cfg fcTL (EncodeMeta.encodeFctl fc) ++ (idats cfg zs ++
            (be32Bytes len' ++ typeBytes t' ++ rest'))))).length)
        [.readInfo]).1.dec.info = some i ∧
      i.actl = m.actl ∧ i.fctl = some fc ∧
      { i with text := [], fctl := none } = expectedInfo m ∧ i.text.map viewText = expectedViews z m := by
  obtain ⟨r, tcs, hrun, hinfo, hviews⟩ := animated_read_info cfg t f opts limit z m fc zs raw len' t' rest' hI hC ht hz hc
    parseEmptyChunks_now hr cs h hlen32 hfr hfi hf0 ho1 ho2 hzs hzl hinf hlen' ht' hne' hsize hlimit
  rw [hrun]
  exact ⟨_, rfl, hinfo, rfl, rfl, rfl, hviews⟩

/-- **C17 end to end for an animation.**  `m`: a metadata configuration with an animation control; the writer configuration
    `encCfg z m (some f0) false validate` is one `write_header` accepts for an animation of `n` frames (`Enc.Cfg.Anim`: `acTL = (n,
    plays)`, `n ≥ 1`, the frame control `f0` — what `set_animated` installed — with sequence number 0, non-empty, inside the canvas);
    the frames `fr0 :: frs`, each with setter calls and image data as `Enc.anim_run` asks (`FirstOk`: after its setters the first
    frame covers the canvas; `LaterOk`); compressor, CRC, codec, options and limit as in `C17_file_roundtrip`.  Then every call of
    the writer returns `Ok`, and `read_info` on THE BYTES in the sink leaves an `Info` that is `expectedInfo m` — in particular
    `animation_control = m.actl` — with the text chunks of `m` and, as current frame control, the configured one after the first
    frame's setter calls (`fcOf … f0 fr0.pre`, all nine fields, sequence number 0). -/
theorem C17_anim_file_roundtrip (cfg : Framing.Cfg) (t : TCfg) (f : Flags) (opts : Options) (limit : Nat) (z : ZCodec)
    (compress : Bytes → Bytes) (choose : Bytes → Bytes → FilterType) (m : MetaConfig) (validate : Bool) (n plays : Nat)
    (f0 : FC) (fr0 : Enc.Frame) (frs : List Enc.Frame)
    (hI : cfg.InflateOk) (hcrc : ∀ b, cfg.crc b = crcOfList b) (ht : t.IsIdentity f)
    (hz : z.Ok) (hc : CfgAgrees cfg z)
    (hr : m.InRange) (cs : List Chunk) (h : encodeHeaderChunks z m = .ok cs) (hlen32 : ∀ c ∈ cs, c.2.length < 2 ^ 32)
    (hanim : (encCfg z m (some f0) false validate).Anim n plays f0) (hn : n = frs.length + 1)
    (h0 : FirstOk (encCfg z m (some f0) false validate) f0 fr0)
    (hl : LaterOk (scanCodec compress choose) (encCfg z m (some f0) false validate)
      { fcOf m.width m.height f0 fr0.pre with seq := 1 } frs)
    (ho1 : opts.ignoreText = false) (ho2 : opts.ignoreIccp = false)
    (hsz : (encCfg z m (some f0) false validate).rowLen * m.height < 2 ^ 64)
    (hnil : ∀ o, cfg.inflate [] ≠ some (o, true))
    (hinf : cfg.inflate (compress (rawOf choose (encCfg z m (some f0) false validate) fr0.data)) =
      some (rawOf choose (encCfg z m (some f0) false validate) fr0.data, true))
    (hlimit : (encCfg z m (some f0) false validate).rowLen + m.budget z + 3 * bodyBytes cs.tail ≤ limit) :
    (runWriter (scanCodec compress choose) (encCfg z m (some f0) false validate) {} (animOps (fr0 :: frs)) .finish).header =
      .ok ∧
    ResultsOk (animOps (fr0 :: frs))
      (runWriter (scanCodec compress choose) (encCfg z m (some f0) false validate) {} (animOps (fr0 :: frs)) .finish).results ∧
    (runWriter (scanCodec compress choose) (encCfg z m (some f0) false validate) {} (animOps (fr0 :: frs)) .finish).final =
      some .ok ∧
    ∃ i,
      (Reader.run cfg t
        (R.init opts limit f
          (runWriter (scanCodec compress choose) (encCfg z m (some f0) false validate) {} (animOps (fr0 :: frs))
            .finish).state.sink.bytes
          (runWriter (scanCodec compress choose) (encCfg z m (some f0) false validate) {} (animOps (fr0 :: frs))
            .finish).state.sink.bytes.length)
        [.readInfo]).2 = [.header] ∧
      (Reader.run cfg t
        (R.init opts limit f
          (runWriter (scanCodec compress choose) (encCfg z m (some f0) false validate) {} (animOps (fr0 :: frs))
            .finish).state.sink.bytes
          (runWriter (scanCodec compress choose) (encCfg z m (some f0) false validate) {} (animOps (fr0 :: frs))
            .finish).state.sink.bytes.length)
        [.readInfo]).1.dec.info = some i ∧
      i.actl = m.actl ∧ i.fctl = some (fcDec (fcOf m.width m.height f0 fr0.pre)) ∧
      { i with text := [], fctl := none } = expectedInfo m ∧ i.text.map viewText = expectedViews z m := by
  obtain ⟨rs, r, tcs, r1, r2, r3, r4, hrun, hinfo, hviews⟩ := anim_file_read_info cfg t f opts limit z compress choose m
    validate n plays f0 fr0 frs hI hcrc ht hz hc parseEmptyChunks_now hr cs h hlen32 hanim hn h0 hl ho1 ho2 hsz hnil hinf hlimit
  rw [hrun, r2]
  exact ⟨r1, r3, r4, _, rfl, hinfo, rfl, rfl, rfl, hviews⟩

/-! ## Non-vacuity: every hypothesis instantiated on a concrete file -/

section Examples
open Png.Framing.Toy Png.Reader.Toy

/-- a decoder configuration for the examples: the toy inflater of `Proofs/FramingToy.lean` (a length byte, then the payload) for
    the image data, the real CRC-32, `toyCodec` (`0x78 ::`) as bounded inflater for the metadata, the real UTF-8 test -/
def mbCfg : Framing.Cfg :=
  { crc := crcOfList, inflate := toyCfg.inflate, inflateBounded := (cfgOf toyCodec).inflateBounded,
    utf8Ok := fun b => (utf8Decode b).isSome }

theorem mbCfg_inflateOk : mbCfg.InflateOk := ⟨toy_inflateOk.mono, toy_inflateOk.done⟩
theorem mbCfg_agrees : CfgAgrees mbCfg toyCodec := ⟨fun _ _ => rfl, fun _ => rfl⟩
theorem mbCfg_nil : ∀ o, mbCfg.inflate [] ≠ some (o, true) := by
  intro o h; simp [mbCfg, toyCfg, toyInflate] at h

/-- 3×2, 2-bit palette, with pHYs, gAMA, cHRM, an ICC profile, eXIf, PLTE, tRNS and one text chunk of each kind -/
def metaPal : MetaConfig :=
  { width := 3, height := 2, depth := 2, color := 3,
    palette := some [0, 0, 0, 255, 0, 0, 0, 255, 0, 0, 0, 255], trns := some [0, 128],
    pixelDims := some ⟨2835, 2835, true⟩, gamma := some 45455, chroma := some ⟨1, 2, 3, 4, 5, 6, 7, 8⟩,
    icc := some [1, 2, 3], exif := some [7, 7],
    tEXt := [⟨"A", "B"⟩], zTXt := [⟨"Z", .uncompressed "zz"⟩], iTXt := [⟨"I", false, "en", "k", .uncompressed "é"⟩] }

/-- the same with an sRGB intent: the ICC profile and cHRM are not written, gAMA is (it is the substitute) -/
def metaSrgb : MetaConfig := { metaPal with srgb := some 1 }

example : metaPal.InRange ∧ metaSrgb.InRange := by decide

theorem metaPal_clean : Clean metaPal :=
  ⟨fun h => absurd h (by decide), fun v hv => by
    have : v = [0, 128] := by simpa [metaPal] using hv.symm
    subst this; decide⟩

theorem metaSrgb_clean : Clean metaSrgb :=
  ⟨fun h => absurd h (by decide), fun v hv => by
    have : v = [0, 128] := by simpa [metaSrgb, metaPal] using hv.symm
    subst this; decide⟩

example : (encodeHeaderChunks toyCodec metaPal).map (fun cs => cs.map fun c => typeName c.1) =
    .ok ["IHDR", "pHYs", "gAMA", "cHRM", "iCCP", "eXIf", "PLTE", "tRNS", "tEXt", "zTXt", "iTXt"] := by decide

example : (encodeHeaderChunks toyCodec metaSrgb).map (fun cs => cs.map fun c => typeName c.1) =
    .ok ["IHDR", "pHYs", "sRGB", "gAMA", "eXIf", "PLTE", "tRNS", "tEXt", "zTXt", "iTXt"] := by decide

/-- the header chunks of `metaPal` -/
def palCs : List Chunk :=
  match encodeHeaderChunks toyCodec metaPal with
  | .ok cs => cs
  | .error _ => []

theorem palCs_ok : encodeHeaderChunks toyCodec metaPal = .ok palCs := by decide

example : bodyBytes palCs.tail = 9 + 4 + 32 + 7 + 2 + 12 + 2 + 3 + 6 + 11 ∧ metaPal.budget toyCodec = 3 + 12 + 2 + (3 + 6 + 11) ∧
    (encCfg toyCodec metaPal none false true).rowLen = 1 := by decide

/-- **`C17_file_fields_partial` instantiated**: the file written for `metaPal` (image data `[0x6C, 0xB4]`, the filter type
    alternating, `validate_sequence` on), read with a limit of 400 bytes (`1 + 37 + 3 · 88 = 302` suffice) -/
example :
    ∃ i,
      (Reader.run mbCfg idT
        (R.init {} 400 {}
          (runWriter (scanCodec C03.storeZ C03.choosePal) (encCfg toyCodec metaPal none false true) {} [.image [0x6C, 0xB4]]
            .finish).state.sink.bytes
          (runWriter (scanCodec C03.storeZ C03.choosePal) (encCfg toyCodec metaPal none false true) {} [.image [0x6C, 0xB4]]
            .finish).state.sink.bytes.length)
        [.readInfo]).1.dec.info = some i ∧
      i.width = 3 ∧ i.height = 2 ∧ i.depth = 2 ∧ i.color = 3 ∧ i.pixelDims = some (2835, 2835, 1) ∧
      infoGamma i = some 45455 ∧ infoChroma i = some [1, 2, 3, 4, 5, 6, 7, 8] ∧ i.icc = some [1, 2, 3] ∧
      i.exif = some [7, 7] ∧ i.palette = some [0, 0, 0, 255, 0, 0, 0, 255, 0, 0, 0, 255] ∧ i.trns = some [0, 128] ∧
      i.text.map viewText = expectedViews toyCodec metaPal := by
  obtain ⟨i, h0, h1, h2, h3, h4, _, h6, _, h8, h9, h10, h11, _, h13, h14, _, h16⟩ :=
    C17_file_fields_partial mbCfg idT {} {} 400 toyCodec C03.storeZ C03.choosePal metaPal false true [0x6C, 0xB4]
      mbCfg_inflateOk (fun _ => rfl) C01.idT_isIdentity toyCodec_ok mbCfg_agrees (by decide) metaPal_clean palCs palCs_ok
      (by decide) rfl (fun _ => rfl) rfl rfl (by decide) (by decide) mbCfg_nil (by decide) (by decide)
  exact ⟨i, h0, h1, h2, h3, h4, h6, h8, h9, h10, h11, h13, h14, h16⟩

/-- the text chunks as `Info` presents them -/
example : expectedViews toyCodec metaPal =
    [some (.t ⟨"A", "B"⟩), some (.z ⟨"Z", .compressed [0x78, 0x7A, 0x7A]⟩),
     some (.i ⟨"I", false, "en", "k", .uncompressed "é"⟩)] := by decide

/-- the same file, evaluated: the kernel runs the writer model, the byte-level machine (CRC-32 included) and `read_info`, and
    finds the `Info` the theorem predicts -/
example :
    (Reader.run mbCfg idT
      (R.init {} 400 {}
        (runWriter (scanCodec C03.storeZ C03.choosePal) (encCfg toyCodec metaPal none false true) {} [.image [0x6C, 0xB4]]
          .finish).state.sink.bytes
        (runWriter (scanCodec C03.storeZ C03.choosePal) (encCfg toyCodec metaPal none false true) {} [.image [0x6C, 0xB4]]
          .finish).state.sink.bytes.length)
      [.readInfo]).1.dec.info.map (fun i => ({ i with text := [] }, i.text.map viewText)) =
    some (expectedInfo metaPal, expectedViews toyCodec metaPal) := by decide +kernel

/-- a cut of the zlib stream of the image of the examples into `IDAT` payloads; the image in two `write_all` pieces -/
def cutPal : List Bytes := [[4], [1], [], [0x6C], [2, 0x48]]
def piecesPal : List Bytes := [[0x6C], [0xB4]]

/-- **`C17_file_any_idat_split` instantiated**: the header chunks of `metaPal`, the image data cut into single bytes and an empty
    chunk -/
example :
    ∃ i,
      (Reader.run mbCfg idT
        (R.init {} 400 {}
          (fileBytes (mkIhdr (encCfg toyCodec metaPal none false true) :: metaChunks (encCfg toyCodec metaPal none false true) ++
            cutPal.map mkIdat ++ [iendChunk]))
          (fileBytes (mkIhdr (encCfg toyCodec metaPal none false true) :: metaChunks (encCfg toyCodec metaPal none false true) ++
            cutPal.map mkIdat ++ [iendChunk])).length)
        [.readInfo]).1.dec.info = some i ∧
      { i with text := [] } = expectedInfo metaPal ∧ i.text.map viewText = expectedViews toyCodec metaPal := by
  obtain ⟨i, _, h2, h3, h4⟩ := C17_file_any_idat_split mbCfg idT {} {} 400 toyCodec metaPal false true
    cutPal [1, 0x6C, 2, 0x48] mbCfg_inflateOk (fun _ => rfl) C01.idT_isIdentity toyCodec_ok mbCfg_agrees
    (by decide) palCs palCs_ok (by decide) rfl (fun _ => rfl) rfl rfl (by decide) (by decide) (by decide) (by decide) (by decide)
  exact ⟨i, h2, h3, h4⟩

/-- **`C17_stream_file_roundtrip` instantiated**: the same image through an owned stream writer, one byte per `write_all` -/
example :
    ∃ i,
      (Reader.run mbCfg idT
        (R.init {} 400 {}
          (runProg Enc.toyCodec (scanZ C03.storeZ C03.choosePal) (encCfg toyCodec metaPal none false true) {} []
            (.intoStream 4096 (piecesPal.map .write) .finish)).state.sink.bytes
          (runProg Enc.toyCodec (scanZ C03.storeZ C03.choosePal) (encCfg toyCodec metaPal none false true) {} []
            (.intoStream 4096 (piecesPal.map .write) .finish)).state.sink.bytes.length)
        [.readInfo]).1.dec.info = some i ∧
      { i with text := [] } = expectedInfo metaPal ∧ i.text.map viewText = expectedViews toyCodec metaPal :=
  (C17_stream_file_roundtrip mbCfg idT {} {} 400 toyCodec Enc.toyCodec C03.storeZ C03.choosePal metaPal false true 4096
    piecesPal [0x6C, 0xB4] mbCfg_inflateOk (fun _ => rfl) C01.idT_isIdentity toyCodec_ok mbCfg_agrees (by decide) palCs
    palCs_ok (by decide) rfl (fun _ => rfl) rfl rfl (by decide) (by decide) (by decide) mbCfg_nil (by decide) (by decide)).2.2

/-! ### one chunk -/

/-- 3×2, 2-bit palette -/
def hdrPal : Header := ⟨3, 2, 3, 2, false⟩

/-- **`C17_feedChunk_is_parse_chunk` instantiated**, a chunk that fits the chunk buffer: `gAMA` right after `IHDR`.  What
    `C17_roundtrip_gama` says of `feedChunk` holds of the byte-level machine reading the 16 bytes of the chunk. -/
example :
    ∃ D', AncTrace mbCfg (afterIhdr mbCfg {} 1000 hdrPal) (chunk mbCfg gAMA (encodeGama 45455)) D' ∧
      D'.info = some { hdrPal.info with gama := some 45455 } := by
  obtain ⟨dF, i, hi, hf, hinfo, _⟩ := C17_roundtrip_gama mbCfg { afterIhdr mbCfg {} 1000 hdrPal with limit := 1000 } 45455
    (by decide) (by decide)
  cases hi
  obtain ⟨D', T, _, hms, _⟩ := C17_feedChunk_is_parse_chunk mbCfg (crcOk_of_eq mbCfg fun _ => rfl)
    (body := encodeGama 45455) (cap' := Params.chunkBufferSize) (limit' := 1000)
    (idle_afterIhdr mbCfg {} 1000 hdrPal) (by decide) (typeOk_metaKinds (t := gAMA) (by decide)) (by decide) (by decide) hf
  exact ⟨D', T, (congrArg MS.info hms).trans hinfo⟩

/-- … and a chunk that does not fit: an `eXIf` block of 40 000 bytes.  The chunk buffer doubles once (32 768 bytes are charged to
    the limit), then `parse_chunk` stores the block: `feedChunk` is run with what is left of the limit. -/
example :
    ∃ D', AncTrace mbCfg (afterIhdr mbCfg {} 100000 hdrPal) (chunk mbCfg eXIf (List.replicate 40000 7)) D' ∧
      D'.info = some { hdrPal.info with exif := some (List.replicate 40000 7) } ∧ D'.limit ≤ 100000 - 32768 ∧
      D'.cap = 65536 := by
  have hne : List.replicate 40000 (7 : UInt8) ≠ [] := by
    intro h
    have := congrArg List.length h
    rw [List.length_replicate] at this
    exact absurd this (by decide)
  obtain ⟨dF, i, hi, hf, hinfo⟩ := C17_roundtrip_exif_partial mbCfg
    { afterIhdr mbCfg {} 100000 hdrPal with limit := 100000 - 32768 } (List.replicate 40000 7) hne (by decide)
  cases hi
  obtain ⟨D', T, _, hms, hcap⟩ := C17_feedChunk_is_parse_chunk mbCfg (crcOk_of_eq mbCfg fun _ => rfl)
    (body := List.replicate 40000 7) (cap' := 65536) (limit' := 100000 - 32768)
    (idle_afterIhdr mbCfg {} 100000 hdrPal) (by decide) (typeOk_metaKinds (t := eXIf) (by decide))
    (by rw [List.length_replicate]; decide) (by rw [List.length_replicate]; decide +kernel) hf
  refine ⟨D', T, (congrArg MS.info hms).trans hinfo, ?_, hcap⟩
  rw [show D'.limit = dF.limit from congrArg MS.limit hms]
  exact feedChunk_limit_le hf

/-! ### a run of chunks; the header -/

/-- **`C17_feedChunks_bytes` instantiated**: `gAMA` and a `tEXt` chunk after `IHDR`, the byte-level decoder already 10 bytes
    behind the chunk-level one -/
example :
    ∃ D' K', AncChunksG mbCfg (afterIhdr mbCfg {} 990 hdrPal) [(gAMA, encodeGama 45455), (Framing.tEXt, [65, 0, 66])] D' ∧
      D'.info = some { hdrPal.info with gama := some 45455, text := [.tEXt [65] [66]] } ∧ D'.limit + K' = 997 ∧ K' ≤ 24 := by
  have hB : mbCfg.BoundedOk := C17_boundedOk toyCodec_ok mbCfg_agrees
  have hv : (feedChunks mbCfg (afterIhdr mbCfg {} 1000 hdrPal) [(gAMA, encodeGama 45455), (Framing.tEXt, [65, 0, 66])]).map
      (fun d => (d.info, d.limit)) =
      .ok (some { hdrPal.info with gama := some 45455, text := [.tEXt [65] [66]] }, 997) := by decide
  cases h : feedChunks mbCfg (afterIhdr mbCfg {} 1000 hdrPal) [(gAMA, encodeGama 45455), (Framing.tEXt, [65, 0, 66])] with
  | error e => rw [h] at hv; cases hv
  | ok d' =>
    rw [h] at hv
    simp only [Except.map, Except.ok.injEq, Prod.mk.injEq] at hv
    obtain ⟨D', K', hch, hrel, _, hK, _⟩ := C17_feedChunks_bytes mbCfg hB _
      (fun c hc => by
        simp only [List.mem_cons, List.mem_nil_iff, or_false] at hc
        rcases hc with rfl | rfl
        · exact ⟨typeOk_metaKinds (t := gAMA) (by decide), by decide⟩
        · exact ⟨typeOk_metaKinds (t := Framing.tEXt) (by decide), by decide⟩)
      (afterIhdr mbCfg {} 1000 hdrPal) (afterIhdr mbCfg {} 990 hdrPal) d' 10 ⟨rfl, rfl, rfl, rfl, rfl, rfl⟩ (by decide) h
      (by rw [hv.2]; decide)
    refine ⟨D', K', hch, hrel.info.trans hv.1, by rw [hrel.limit, hv.2], ?_⟩
    have : bodyBytes [(gAMA, encodeGama 45455), (Framing.tEXt, [65, 0, 66])] = 7 := by decide
    omega

/-- **`C17_header_bytes` instantiated**: the header chunks of `metaPal`, read by the byte-level machine -/
example :
    ∃ rest dA i, palCs = (Framing.IHDR, (hdrOf metaPal).body) :: rest ∧
      AncTrace mbCfg (afterIhdr mbCfg {} 400 (hdrOf metaPal)) (chunks mbCfg rest) dA ∧ Idle dA (hdrOf metaPal).info.core ∧
      dA.info = some i ∧ dA.haveIdat = false ∧
      { i with text := [] } = expectedInfo metaPal ∧ i.text.map viewText = expectedViews toyCodec metaPal ∧
      400 ≤ dA.limit + (metaPal.budget toyCodec + 2 * bodyBytes rest) :=
  C17_header_bytes mbCfg (crcOk_of_eq mbCfg fun _ => rfl) toyCodec toyCodec_ok mbCfg_agrees metaPal (by decide) palCs palCs_ok
    (by decide) {} rfl rfl 400 (by decide)

/-! ### an animated configuration -/

/-- 3×2, 8-bit grayscale, one frame, played forever, with a gamma and a text chunk -/
def metaAnim : MetaConfig :=
  { width := 3, height := 2, depth := 8, color := 0, actl := some (1, 0), gamma := some 100000, tEXt := [⟨"T", "x"⟩] }

def animCs : List Chunk :=
  match encodeHeaderChunks toyCodec metaAnim with
  | .ok cs => cs
  | .error _ => []

theorem animCs_ok : encodeHeaderChunks toyCodec metaAnim = .ok animCs := by decide

example : animCs.map (fun c => typeName c.1) = ["IHDR", "gAMA", "acTL", "tEXt"] ∧ bodyBytes animCs.tail = 15 ∧
    (hdrOf metaAnim).lineSize = 3 := by decide

/-- the CRC field of `IEND` -/
def iendCrc : Bytes := be32Bytes (crcOfList (typeBytes IEND))

/-- the writer model, configured by `set_animated(1, 0)` (`fctl`: the default frame control over the whole canvas), writes the
    layout `C17_animated_read_info` is about: the header chunks, `fcTL` number 0, `IDAT`, `IEND` -/
example :
    (runWriter (scanCodec C03.storeZ fun _ _ => .none) (encCfg toyCodec metaAnim (some { w := 3, h := 2 }) false true) {}
      [.image [1, 2, 3, 4, 5, 6]] .finish).state.sink.bytes =
    signature ++ (chunks mbCfg animCs ++ (chunk mbCfg fcTL (EncodeMeta.encodeFctl (initialFc 3 2)) ++
      (idats mbCfg [[8, 0, 1, 2, 3, 0, 4, 5, 6]] ++ (be32Bytes 0 ++ typeBytes IEND ++ iendCrc)))) := by
  decide +kernel

/-- **`C17_animated_read_info` instantiated** on that file -/
example :
    ∃ i,
      (Reader.run mbCfg idT
        (R.init {} 100 {}
          (signature ++ (chunks mbCfg animCs ++ (chunk mbCfg fcTL (EncodeMeta.encodeFctl (initialFc 3 2)) ++
            (idats mbCfg [[8, 0, 1, 2, 3, 0, 4, 5, 6]] ++
              (be32Bytes 0 ++ typeBytes IEND ++ iendCrc)))))
          (signature ++ (chunks mbCfg animCs ++ (chunk mbCfg fcTL (EncodeMeta.encodeFctl (initialFc 3 2)) ++
            (idats mbCfg [[8, 0, 1, 2, 3, 0, 4, 5, 6]] ++
              (be32Bytes 0 ++ typeBytes IEND ++ iendCrc))))).length)
        [.readInfo]).1.dec.info = some i ∧
      i.actl = metaAnim.actl ∧ i.fctl = some (initialFc 3 2) ∧
      { i with text := [], fctl := none } = expectedInfo metaAnim := by
  obtain ⟨i, _, h2, h3, h4, h5, _⟩ := C17_animated_read_info mbCfg idT {} {} 100 toyCodec metaAnim (initialFc 3 2)
    [[8, 0, 1, 2, 3, 0, 4, 5, 6]] [0, 1, 2, 3, 0, 4, 5, 6] 0 IEND iendCrc
    mbCfg_inflateOk (crcOk_of_eq mbCfg fun _ => rfl) C01.idT_isIdentity toyCodec_ok mbCfg_agrees (by decide) animCs animCs_ok
    (by decide) (by decide) (by decide) rfl rfl rfl (by decide) (by decide) (by decide) (by decide) IEND_lt
    (fun h => IDAT_ne_IEND' h.symm) (by decide) (by decide)
  exact ⟨i, h2, h3, h4, h5⟩

example : metaAnim.actl = some (1, 0) ∧ (expectedInfo metaAnim).gama = some 100000 ∧
    expectedViews toyCodec metaAnim = [some (.t ⟨"T", "x"⟩)] := by decide

/-- **`C17_anim_file_roundtrip` instantiated**: `metaAnim`, one frame; before `write_image_data` the delay is set to 1/25 -/
example :
    ∃ i,
      (Reader.run mbCfg idT
        (R.init {} 100 {}
          (runWriter (scanCodec C03.storeZ fun _ _ => .none) (encCfg toyCodec metaAnim (some { w := 3, h := 2 }) false true) {}
            (animOps [⟨[.setDelay 1 25], [1, 2, 3, 4, 5, 6]⟩]) .finish).state.sink.bytes
          (runWriter (scanCodec C03.storeZ fun _ _ => .none) (encCfg toyCodec metaAnim (some { w := 3, h := 2 }) false true) {}
            (animOps [⟨[.setDelay 1 25], [1, 2, 3, 4, 5, 6]⟩]) .finish).state.sink.bytes.length)
        [.readInfo]).1.dec.info = some i ∧
      i.actl = metaAnim.actl ∧
      i.fctl = some (fcDec (fcOf 3 2 { w := 3, h := 2 } [.setDelay 1 25])) ∧
      { i with text := [], fctl := none } = expectedInfo metaAnim := by
  obtain ⟨_, _, _, i, _, h2, h3, h4, h5, _⟩ := C17_anim_file_roundtrip mbCfg idT {} {} 100 toyCodec C03.storeZ
    (fun _ _ => .none) metaAnim true 1 0 { w := 3, h := 2 } ⟨[.setDelay 1 25], [1, 2, 3, 4, 5, 6]⟩ []
    mbCfg_inflateOk (fun _ => rfl) C01.idT_isIdentity toyCodec_ok mbCfg_agrees (by decide) animCs animCs_ok (by decide)
    (by decide) rfl (by decide) trivial rfl rfl (by decide) mbCfg_nil (by decide) (by decide)
  exact ⟨i, h2, h3, h4, h5⟩

example : fcDec (fcOf 3 2 { w := 3, h := 2 } [.setDelay 1 25]) = ⟨0, 3, 2, 0, 0, 1, 25, 0, 0⟩ := by decide

/-! ### outside `Clean` the field-by-field statement fails -/

/-- 1×1 RGBA with a transparency: `encode_header` writes the `tRNS` chunk, `parse_trns` skips it (`ColorWithBadTrns`, benign) -/
def metaRgba : MetaConfig := { width := 1, height := 1, depth := 8, color := 6, trns := some [0, 7] }

def rgbaCs : List Chunk :=
  match encodeHeaderChunks toyCodec metaRgba with
  | .ok cs => cs
  | .error _ => []

theorem rgbaCs_ok : encodeHeaderChunks toyCodec metaRgba = .ok rgbaCs := by decide

/-- **counterexample**: the file written for `metaRgba` satisfies every hypothesis, and `read_info` reports NO transparency (the
    same witness as `C17_header_roundtrip_counterexample`, now at the byte level) -/
theorem C17_file_fields_counterexample : ¬ C17_file_fields_statement := by
  intro hst
  obtain ⟨i, h1, h2⟩ := hst mbCfg idT {} {} 100 toyCodec C03.storeZ (fun _ _ => .none) metaRgba false false [1, 2, 3, 4]
    mbCfg_inflateOk (fun _ => rfl) C01.idT_isIdentity toyCodec_ok mbCfg_agrees (by decide) rgbaCs rgbaCs_ok (by decide) rfl
    (fun h => absurd h (by decide)) rfl rfl (by decide) (by decide) mbCfg_nil (by decide) (by decide)
  obtain ⟨_, _, _, i', _, g1, g2, _⟩ := C17_file_roundtrip mbCfg idT {} {} 100 toyCodec C03.storeZ (fun _ _ => .none) metaRgba
    false false [1, 2, 3, 4] mbCfg_inflateOk (fun _ => rfl) C01.idT_isIdentity toyCodec_ok mbCfg_agrees (by decide) rgbaCs
    rgbaCs_ok (by decide) rfl (fun h => absurd h (by decide)) rfl rfl (by decide) (by decide) mbCfg_nil (by decide) (by decide)
  rw [g1] at h1
  have hi : i' = i := Option.some.inj h1
  subst hi
  have : ({ i' with text := [] } : Info).trns = none := by
    rw [g2]
    simp only [expectedInfo, metaRgba, trnsRead_some]
    cases skipped [0, 7] <;> rfl
  rw [show ({ i' with text := [] } : Info).trns = i'.trns from rfl, h2] at this
  revert this
  decide

end Examples

end Png.C17
