import PngVerif.Props.C18Limits
/-!
# C18 — `refused_frame_ends_decoding`: the hypothesis "the stream decoder is usable afterwards" is necessary

A `LimitsExceeded` of the stream decoder itself (here: a 32 769-byte `tEXt` chunk between the frames does not fit the
32 768-byte chunk buffer, and the budget of 1000 bytes does not allow growing it) reaches the caller through the same
calls, but it is a fatal error: the stream decoder is poisoned, `remaining_frames` is NOT reset, and
`poisoned_absorbing` — not `refused_frame_ends_decoding` — describes what follows.

(Separate file: the witness is a 33 KB input evaluated by `decide +kernel`, about a minute.)
-/
namespace Png.C18
open Png Png.Framing Png.Reader Png.Reader.Toy Png.Framing.Toy


/-- a 32 769-byte `tEXt` chunk: one byte more than the chunk buffer holds -/
def bigText : Bytes := [0, 0, 128, 1, 116, 69, 88, 116] ++ List.replicate 32769 0 ++ [0, 0, 0, 0]
def apngBigChunk : Bytes := sig ++ ihdr4 ++ actl ++ fctl 0 ++ idat1 ++ bigText ++ fctlWide ++ fdatWide ++ iend
/-- budget 1000: both frames would be affordable (1 + 4 bytes) -/
def beforeBigChunk : R :=
  (run toyCfg idT (R.init {} 1000 {} apngBigChunk apngBigChunk.length) [.readInfo, .nextFrame 0]).1

theorem stream_decoder_limits_witness :
    (step toyCfg idT beforeBigChunk .nextFrameInfo).2 = .err .limits "LimitsExceeded" ∧
    (step toyCfg idT beforeBigChunk .nextFrameInfo).1.remaining = 1 ∧
    (step toyCfg idT beforeBigChunk .nextFrameInfo).1.dec.state.isNone = true := by decide +kernel

/-- **`refused_frame_ends_decoding` without `hlive` is false**: a call can answer `LimitsExceeded` without the reader
    being ended (the witness above: a fatal `LimitsExceeded` of the stream decoder; `limits_error_cases` says this is
    the only other possibility) -/
theorem refused_frame_hypothesis_needed :
    ¬ (∀ (cfg : Cfg) (t : TCfg), t.Ok → ∀ (r : R) (op : Op) (w : String), Inv t r → r.isReader = true →
        (step cfg t r op).2 = .err .limits w → (step cfg t r op).1.remaining = 0) := by
  intro h
  have hr : beforeBigChunk.isReader = true := by decide +kernel
  have hI : Inv idT beforeBigChunk := by
    have hr' := hr
    unfold beforeBigChunk at hr' ⊢
    exact reachable_states_satisfy_inv toyCfg idT idT_ok {} 1000 {} apngBigChunk apngBigChunk.length
      [.readInfo, .nextFrame 0] (by decide +kernel) (by decide +kernel) hr'
  have := h toyCfg idT idT_ok beforeBigChunk .nextFrameInfo _ hI hr stream_decoder_limits_witness.1
  rw [stream_decoder_limits_witness.2.1] at this
  cases this

end Png.C18
