import PngVerif.Proofs.ComposeTransformReal
import PngVerif.Proofs.ComposeTransformAnc
import PngVerif.Proofs.ComposeTransformRowsPath
import PngVerif.Proofs.ComposeTransformPixels
import PngVerif.Proofs.ComposeTransformCommute
import PngVerif.Props.C01Decode
import PngVerif.Props.C08
/-!
# C08 end to end — decoding with ANY transformation flags = documented conversion of the specification's pixels

`Props/C08.lean` proves the documented conversion for ONE ROW of `Model/Transform.lean`; `Props/C01Decode.lean`
proves the end-to-end decode theorem for the identity transformation.  This file composes the two: for every
well-formed still image (the byte layout of `Model/WellFormed.lean`, any chunks before the image data that
`parse_chunk` accepts — `PLTE` and `tRNS` among them —, any cut of the zlib stream into `IDAT` chunks, both interlace
methods) and every subset of {EXPAND, STRIP_16, ALPHA}, `read_info` + `next_frame` into a buffer of
`output_buffer_size()` bytes reports the advertised OUTPUT geometry and leaves the specification's pixels
(`specScanlines`: reverse filtering of the inflated stream) converted scanline by scanline by the documented rules
(`Transform.specConvert`), packed (no interlace) or put in place by the specification's `Adam7.deinterlace` with the
output bits per pixel — `specPixelsT`.

* `C08_decode_generic`: for ANY row transformation `t : TCfg` satisfying the contract `TCfg.Converts` (legal output
  type, creation succeeds, a row of the right length is turned into exactly `output_line_size` bytes) for the flags and
  the `Info` the decoder holds at the begin of the image data.  Layers: `Proofs/ComposeTransformRows.lean`
  (`nextRowImplT_trace`, `frameRowsT_trace`, `frameInterlacedT_trace`), `Proofs/ComposeTransformDecode.lean`
  (`frameIntoT_trace`, `readInfoT_wf`, `decodeT_wf`).
* `C08_decode`: the instance `Driver.realT` (= `Model/Transform.lean` behind the `Reader` model), with
  `C08_convert_any_palette` / `C08_advertised`: output = `specConvert` row by row, `OutputInfo` = the documented
  `specOutputColor` / `specOutputDepth` / `specOutputLineSize`.  The only hypothesis about the metadata is
  `Transform.Decodable` of the `Info` at the begin of the image data (a valid PNG has it).
* `C08_decode_indexed`, `C08_decode_key`: the same with the chunks before the image data given explicitly —
  `PLTE` (+ `tRNS`) for an indexed image, a colour-key `tRNS` for a grayscale / RGB image; no hypothesis about the
  decoder's state is left.
* `C08_decode_vs_identity` (the property as stated): decoding a file with the flags `f` returns exactly the
  documented conversion, row by row, of what decoding the same file with no flags returns — for both interlace
  methods: the documented conversion commutes with de-interlacing (`specPixelsT_is_converted_image`,
  `Proofs/ComposeTransformCommute.lean`).
* `C08_decode_rows_generic`, `C08_decode_rows`: the same row by row (`next_row`); `C08_interlaced_pixels`: the Adam7
  case pixel by pixel; `C08_identity_flags_is_C01`: with no flags the statement is that of `C01_decode`.
-/
namespace Png.C08
open Png Png.Framing Png.Reader Png.WellFormed Png.Driver

/-! ## The specification side -/

/-- **`specPixelsT` with the identity row map, the header's line size and bits per pixel is `specPixels`** (the
    specification's pixels of C01) -/
theorem specPixelsT_identity (h : Header) (raw bg : Bytes) :
    specPixelsT h (fun _ r => r) h.lineSize h.bitsPerPixel raw bg = specPixels h raw bg :=
  specPixelsT_id h raw bg

/-- without interlacing `specPixelsT` is the concatenation, over the specification's scanlines `r`, of `conv width r` -/
theorem specPixelsT_noninterlaced (h : Header) (hil : h.interlaced = false) (conv : Nat → Bytes → Bytes)
    (outLine outBits : Nat) (raw bg : Bytes) :
    specPixelsT h conv outLine outBits raw bg = some ((specScanlines h raw).map (conv h.width)).flatten := by
  unfold specPixelsT
  rw [hil, specScanlinesT_noninterlaced h hil]; rfl

/-- with Adam7 `specPixelsT` is the specification's de-interlacing (`Adam7.deinterlace`, C15), with the output line
    size and the output bits per pixel, of the converted rows of the seven reduced images -/
theorem specPixelsT_interlaced (h : Header) (hil : h.interlaced = true) (conv : Nat → Bytes → Bytes)
    (outLine outBits : Nat) (raw bg : Bytes) :
    specPixelsT h conv outLine outBits raw bg =
      Adam7.deinterlace bg outLine outBits
        (((Adam7.specRows h.width h.height).zip (specScanlines h raw)).map fun x =>
          ({ pass := x.1.1, line := x.1.2.1, width := x.1.2.2 }, conv x.1.2.2 x.2)) := by
  unfold specPixelsT specPassRowsT
  simp [hil, Header.scanlines]

/-- **without interlacing: the documented conversion applied row by row to the specification's image.**  If
    `specPixels h raw _ = some b0` (the pixels C01 is about: what decoding without transformations returns), then
    `specPixelsT` is `b0` cut into its `height` rows of `lineSize` bytes, each converted by `conv width`, concatenated.
    (Any row map.  With Adam7 the row map is applied to the rows of the reduced images BEFORE de-interlacing —
    `specPixelsT_interlaced`; for the documented conversion the two orders agree: `specPixelsT_is_converted_image`.) -/
theorem specPixelsT_rows_of_image (h : Header) (hil : h.interlaced = false) (conv : Nat → Bytes → Bytes)
    (outLine outBits : Nat) (raw bg bg0 b0 : Bytes) (hraw : RawOk h raw) (h0 : specPixels h raw bg0 = some b0) :
    specPixelsT h conv outLine outBits raw bg =
      some ((Transform.chunksN h.lineSize h.height b0).flatMap (conv h.width)) :=
  specPixelsT_of_specPixels h hil conv outLine outBits raw bg bg0 b0 hraw h0

/-! ## The generic theorem -/

/-- **C08 end to end, for any row transformation.**  The hypotheses of `Png.C01.C01_decode` with `t.IsIdentity f`
    replaced by the contract `t.Converts f i h.width` for the `Info` `i` the stream decoder holds after the chunks
    before the image data (`dA.info = some i`: the header's fields plus `PLTE`, `tRNS`, …): the advertised output type
    is a legal pair, `create_transform_fn` succeeds on `i`, and a row of `w ≤ width` pixels is converted into exactly
    `output_line_size(w)` bytes.  The size checks of the decoder are about the OUTPUT: `read_info`'s first
    (mod.rs:206-218) is made with the `Info` after `IHDR` alone (`h.info`) — its advertised depth must be a PNG depth
    and `line · height < 2^64` —; its second (mod.rs:224-232, repair f60364d) is made with `i`, whose output pixels a
    `tRNS` chunk may have widened: `output_line_size · height < 2^64` for `i` as well; the line buffer charged to the
    limits (mod.rs:369) is the output line for `i`.

    Then `read_info` succeeds and `next_frame`, into a buffer of `output_buffer_size()` bytes pre-filled with any byte
    `p`, succeeds, reports the image's size with the advertised OUTPUT colour type, bit depth and line size, and
    leaves exactly `specPixelsT` — the specification's scanlines converted by `t`, de-interlaced with the output pixel
    width — in the buffer, which has `output_line_size · height` bytes. -/
def C08_decode_generic_statement : Prop :=
  ∀ (cfg : Cfg) (t : TCfg) (f : Flags) (opts : Options) (limit : Nat) (h : Header) (anc : Bytes) (dA : Dec) (i : Info)
    (zs : List Bytes) (raw : Bytes) (post : List (ChunkType × Bytes)) (p : UInt8),
    cfg.InflateOk → cfg.CrcOk → h.Valid →
    AncTrace cfg (afterIhdr cfg opts limit h) anc dA → Idle dA h.info.core → dA.info = some i →
    t.Converts f i h.width →
    zs ≠ [] → (∀ z ∈ zs, z.length < 2 ^ 32) → cfg.inflate zs.flatten = some (raw, true) → RawOk h raw →
    (∀ c ∈ post, c.1 ≠ IDAT ∧ c.1 < 2 ^ 32 ∧ c.2.length < 2 ^ 32) →
    depthOk (t.outColorDepth h.info f).2 = true → outLineSize t h.info f h.width * h.height < 2 ^ 64 →
    outLineSize t i f h.width * h.height < 2 ^ 64 →
    outLineSize t i f h.width ≤ dA.limit →
    ∃ buf,
      (Reader.run cfg t
        (R.init opts limit f
          (signature ++ chunk cfg IHDR h.body ++ anc ++ idats cfg zs ++ chunks cfg post ++ chunk cfg IEND [])
          (signature ++ chunk cfg IHDR h.body ++ anc ++ idats cfg zs ++ chunks cfg post ++ chunk cfg IEND []).length)
        [.readInfo, .nextFrame p]).2 =
        [.header, .frame { width := h.width, height := h.height, color := (t.outColorDepth i f).1,
                           depth := (t.outColorDepth i f).2, lineSize := outLineSize t i f h.width } buf] ∧
      specPixelsT h (t.conv f i) (outLineSize t i f h.width)
        (samplesOf (t.outColorDepth i f).1 * (t.outColorDepth i f).2) raw
        (List.replicate (outLineSize t i f h.width * h.height) p) = some buf ∧
      buf.length = outLineSize t i f h.width * h.height

/-- **C08 end to end, generic** (the composition L1 ∘ L2 with an arbitrary row transformation, at full strength) -/
theorem C08_decode_generic : C08_decode_generic_statement := by
  intro cfg t f opts limit h anc dA i zs raw post p hI hC hv hanc hidle hiA hcv hzs hlen hinf hraw hpost hod0 hsize hsize2 hlimit
  obtain ⟨len', t', rest', htail, h1, h2, h3⟩ := C01.tail_shape cfg post hpost
  cases zs with
  | nil => exact absurd rfl hzs
  | cons z zs =>
    have hfile : signature ++ chunk cfg IHDR h.body ++ anc ++ idats cfg (z :: zs) ++ chunks cfg post ++ chunk cfg IEND [] =
        signature ++ (chunk cfg IHDR h.body ++ (anc ++ (idats cfg (z :: zs) ++ (be32Bytes len' ++ typeBytes t' ++ rest')))) := by
      rw [← htail]; simp only [List.append_assoc]
    rw [hfile]
    exact decodeT_wf cfg hI hC t f opts limit h hv anc dA i hanc hidle hiA hcv z zs raw (hlen z (by simp))
      (fun z' hz' => hlen z' (by simp [hz'])) hinf hraw len' t' rest' h1 h2 h3 hod0 hsize hsize2 hlimit p

/-- **the contract follows from `TCfg.Ok`** (the contract of C02 / C05 / C13, `Proofs/ReaderInv.lean`) as soon as
    `create_transform_fn` succeeds on `i`: snapshot = current `Info`, every width -/
theorem converts_of_ok (t : TCfg) (ht : t.Ok) (f : Flags) (i : Info) (hl : InfoLegal i) (hc : t.create i f = .ok ())
    (W : Nat) : t.Converts f i W :=
  TCfg.Converts.of_ok ht hl hc W

/-- the rows `C08_decode_generic` speaks of: what the function created from `i` writes into a buffer of the advertised
    line size; under the contract that is a row of exactly that many bytes -/
theorem conv_spec (t : TCfg) (f : Flags) (i : Info) (W : Nat) (hcv : t.Converts f i W) (row : Bytes) (w : Nat)
    (hw : 1 ≤ w) (hwW : w ≤ W) (hrow : row.length + 1 = rawRowLengthFromWidth i.color i.depth w) :
    t.apply i f i row (outLineSize t i f w) = some (t.conv f i w row) ∧ (t.conv f i w row).length = outLineSize t i f w :=
  hcv.conv_eq hw hwW hrow

/-- **C01 is the instance `IsIdentity`**: an identity transformation satisfies the contract, advertises the header's
    geometry and its row map is the identity on rows of the right length -/
theorem identity_converts (t : TCfg) (f : Flags) (ht : t.IsIdentity f) (i : Info) (hleg : (i.color, i.depth) ∈ legalPairs)
    (W : Nat) : t.Converts f i W ∧ t.outColorDepth i f = (i.color, i.depth) ∧
      ∀ row w, row.length + 1 = rawRowLengthFromWidth i.color i.depth w → t.conv f i w row = row := by
  have hols : ∀ w, outLineSize t i f w = rawRowLengthFromWidth i.color i.depth w - 1 := fun w => outLineSize_id ht i w
  have hap : ∀ row w, row.length + 1 = rawRowLengthFromWidth i.color i.depth w →
      t.apply i f i row (outLineSize t i f w) = some row := by
    intro row w hrow
    have := ht.apply i i row hleg hleg
    rw [hols, ← this]; congr 1; omega
  refine ⟨⟨by rw [ht.out]; exact hleg, ht.create i hleg, fun row w _ _ hrow => ⟨row, hap row w hrow, by rw [hols]; omega⟩⟩,
    ht.out i, fun row w hrow => ?_⟩
  unfold TCfg.conv
  rw [hap row w hrow]; rfl

/-! ## The model's real transformation -/

/-- **the contract holds for the transformation model** (`Driver.realT` = `Model/Transform.lean`): every subset of
    {EXPAND, STRIP_16, ALPHA}, every `Info` whose view is `Transform.Decodable`, every width -/
theorem transform_model_converts (i : Info) (ti : Transform.Info) (hti : tInfo i = some ti)
    (hdec : Transform.Decodable ti) (f : Flags) (W : Nat) : realT.Converts f i W :=
  realT_converts hti hdec f W

/-- **C08 end to end.**  For every inflater and CRC function satisfying their contracts, every subset `f` of
    {EXPAND, STRIP_16, ALPHA}, all decoder options and limits, every valid header `h`, every byte string `anc` of chunks
    before the image data read as `AncTrace` / `Idle` demand (`ancillary_chunks_ok`: any chunks `parse_chunk` accepts —
    `C08_decode_indexed`, `C08_decode_key` for `PLTE` / `tRNS`) and leaving the `Info` `i` whose view for the
    transformations is `ti` (`tInfo i = some ti`: colour type, bit depth, `PLTE`, stored `tRNS`), `ti` being
    `Transform.Decodable` (legal pair; an indexed image has SOME `PLTE` chunk, of any length; a grayscale / RGB colour
    key has one stored sample per channel), every cut `zs ≠ []` of a zlib stream into `IDAT` chunks whose inflated
    stream consists of the header's scanlines with filter types `≤ 4`, any chunks behind the image data, `IEND`:

    if the output image fits `usize` (`output_buffer_size()` does not overflow) and one output line fits the limit
    left after the chunks before `IDAT`, then `read_info` succeeds and `next_frame` into a buffer of
    `output_buffer_size()` bytes pre-filled with any byte `p` succeeds; the reported `OutputInfo` is the image's size
    with the DOCUMENTED output colour type, bit depth and line size (`specOutputColor`, `specOutputDepth`,
    `specOutputLineSize` — those of `C08_advertised`); and the buffer holds exactly the specification's reconstructed
    scanlines, each converted by the DOCUMENTED conversion `specConvert` (that of `C08_convert`), packed one after
    the other (no interlace) or de-interlaced by the specification's `Adam7.deinterlace` with the output bits per
    pixel (Adam7): `specPixelsT`.  The buffer has `specOutputLineSize · height` bytes. -/
def C08_decode_statement : Prop :=
  ∀ (cfg : Cfg) (f : Flags) (opts : Options) (limit : Nat) (h : Header) (anc : Bytes) (dA : Dec) (i : Info)
    (ti : Transform.Info) (zs : List Bytes) (raw : Bytes) (post : List (ChunkType × Bytes)) (p : UInt8),
    cfg.InflateOk → cfg.CrcOk → h.Valid →
    AncTrace cfg (afterIhdr cfg opts limit h) anc dA → Idle dA h.info.core → dA.info = some i →
    tInfo i = some ti → Transform.Decodable ti →
    zs ≠ [] → (∀ z ∈ zs, z.length < 2 ^ 32) → cfg.inflate zs.flatten = some (raw, true) → RawOk h raw →
    (∀ c ∈ post, c.1 ≠ IDAT ∧ c.1 < 2 ^ 32 ∧ c.2.length < 2 ^ 32) →
    Transform.specOutputLineSize ti (tFlags f) h.width * h.height < 2 ^ 64 →
    Transform.specOutputLineSize ti (tFlags f) h.width ≤ dA.limit →
    ∃ buf,
      (Reader.run cfg realT
        (R.init opts limit f
          (signature ++ chunk cfg IHDR h.body ++ anc ++ idats cfg zs ++ chunks cfg post ++ chunk cfg IEND [])
          (signature ++ chunk cfg IHDR h.body ++ anc ++ idats cfg zs ++ chunks cfg post ++ chunk cfg IEND []).length)
        [.readInfo, .nextFrame p]).2 =
        [.header, .frame { width := h.width, height := h.height,
                           color := (Transform.specOutputColor ti (tFlags f)).toNat,
                           depth := Transform.specOutputDepth ti (tFlags f),
                           lineSize := Transform.specOutputLineSize ti (tFlags f) h.width } buf] ∧
      specPixelsT h (fun w row => Transform.specConvert ti (tFlags f) row w)
        (Transform.specOutputLineSize ti (tFlags f) h.width)
        ((Transform.specOutputColor ti (tFlags f)).samples * Transform.specOutputDepth ti (tFlags f)) raw
        (List.replicate (Transform.specOutputLineSize ti (tFlags f) h.width * h.height) p) = some buf ∧
      buf.length = Transform.specOutputLineSize ti (tFlags f) h.width * h.height

/-- **C08 end to end** = `C08_decode_generic` at `Driver.realT`, with the row theorem `C08_convert_any_palette` and the
    size theorem `C08_advertised` -/
theorem C08_decode : C08_decode_statement := by
  intro cfg f opts limit h anc dA i ti zs raw post p hI hC hv hanc hidle hiA hti hdec hzs hlen hinf hraw hpost hsize hlimit
  -- the `Info` at the begin of the image data has the header's fields
  obtain ⟨j, hj, hcj, _⟩ := hidle.info
  have hji : j = i := by rw [hiA] at hj; cases hj; rfl
  subst hji
  simp only [Info.core, Header.info, Prod.mk.injEq] at hcj
  obtain ⟨_, _, c3, c4, _⟩ := hcj
  have hc0 : h.info.color = j.color := c4.symm
  have hd0 : h.info.depth = j.depth := c3.symm
  have hle := realT_outLine_header_le hti hc0 hd0 rfl rfl f h.width
  have hols := realT_outLine hti f h.width
  have hout := realT_out hti f
  obtain ⟨buf, hrun, hspec, hblen⟩ := C08_decode_generic cfg realT f opts limit h anc dA j zs raw post p hI hC hv hanc hidle hiA
    (realT_converts hti hdec f h.width) hzs hlen hinf hraw hpost
    (realT_out_header_depthOk hti hdec.legal hc0 hd0 rfl rfl f)
    (Nat.lt_of_le_of_lt (Nat.mul_le_mul_right _ hle) (by rw [hols]; exact hsize))
    (by rw [hols]; exact hsize)
    (by rw [hols]; exact hlimit)
  rw [hout, hols] at hrun
  rw [hout, hols, samplesOf_toNat] at hspec
  rw [hols] at hblen
  refine ⟨buf, hrun, ?_, hblen⟩
  rw [← hspec]
  refine (specPixelsT_congr h _ _ _ _ raw _ hraw ?_).symm
  intro w row _ hrow
  have hdj : depthOk j.depth = true := by
    have := hv.2.2.2.2
    rw [← hd0]; exact (legal_pos this).2.2
  refine realT_conv hti hdec f row w ?_
  rw [hrow, rowBytes_eq h (by rw [← hd0] at hdj; exact hdj) w, ← hc0, ← hd0]
  have := rowlen_spec h.color h.depth w (by rw [← hd0] at hdj; exact hdj)
  show rawRowLengthFromWidth h.color h.depth w - 1 + 1 = rawRowLengthFromWidth h.color h.depth w
  omega

/-- **C08 end to end, the chunks before the image data as a list accepted by `parse_chunk`** (`AncChunks`: any
    types but `IHDR`, `IDAT`, `fdAT`, `IEND`, `fcTL`; `PLTE` and `tRNS` included) -/
theorem C08_decode_chunks (cfg : Cfg) (f : Flags) (opts : Options) (limit : Nat) (h : Header)
    (cs : List (ChunkType × Bytes)) (dA : Dec) (i : Info) (ti : Transform.Info) (zs : List Bytes) (raw : Bytes)
    (post : List (ChunkType × Bytes)) (p : UInt8)
    (hI : cfg.InflateOk) (hC : cfg.CrcOk) (hv : h.Valid)
    (hcs : AncChunks cfg (afterIhdr cfg opts limit h) cs dA) (hiA : dA.info = some i)
    (hti : tInfo i = some ti) (hdec : Transform.Decodable ti)
    (hzs : zs ≠ []) (hlen : ∀ z ∈ zs, z.length < 2 ^ 32) (hinf : cfg.inflate zs.flatten = some (raw, true))
    (hraw : RawOk h raw) (hpost : ∀ c ∈ post, c.1 ≠ IDAT ∧ c.1 < 2 ^ 32 ∧ c.2.length < 2 ^ 32)
    (hsize : Transform.specOutputLineSize ti (tFlags f) h.width * h.height < 2 ^ 64)
    (hlimit : Transform.specOutputLineSize ti (tFlags f) h.width ≤ dA.limit) :
    ∃ buf,
      (Reader.run cfg realT
        (R.init opts limit f (wellFormedStill cfg h cs zs post) (wellFormedStill cfg h cs zs post).length)
        [.readInfo, .nextFrame p]).2 =
        [.header, .frame { width := h.width, height := h.height,
                           color := (Transform.specOutputColor ti (tFlags f)).toNat,
                           depth := Transform.specOutputDepth ti (tFlags f),
                           lineSize := Transform.specOutputLineSize ti (tFlags f) h.width } buf] ∧
      specPixelsT h (fun w row => Transform.specConvert ti (tFlags f) row w)
        (Transform.specOutputLineSize ti (tFlags f) h.width)
        ((Transform.specOutputColor ti (tFlags f)).samples * Transform.specOutputDepth ti (tFlags f)) raw
        (List.replicate (Transform.specOutputLineSize ti (tFlags f) h.width * h.height) p) = some buf ∧
      buf.length = Transform.specOutputLineSize ti (tFlags f) h.width * h.height := by
  obtain ⟨a1, a2, _⟩ := C01.ancillary_chunks_ok cfg hC opts limit h cs dA hcs
  exact C08_decode cfg f opts limit h (chunks cfg cs) dA i ti zs raw post p hI hC hv a1 a2 hiA hti hdec hzs hlen hinf hraw
    hpost hsize hlimit

/-- the contract also holds for ANY metadata on which `create_transform_fn` succeeds (palettes and `tRNS` of any
    contents, colour keys of a wrong length), outside the one unreachable shape `keyGap` (`Props/TransformContract.lean`):
    `C08_decode_generic` then gives the advertised geometry and sizes; that the rows are the DOCUMENTED conversion is
    what `Decodable` adds -/
theorem transform_model_converts_any_metadata (i : Info) (hl : InfoLegal i) (f : Flags) (hc : realT.create i f = .ok ())
    (hgap : keyGap i f = false) (W : Nat) : realT.Converts f i W :=
  realT_converts_of_create hl f hc hgap W

/-! ## Reading the statement: no flags, and Adam7 pixel by pixel -/

/-- **with no transformation flag the statement of `C08_decode` is that of `C01_decode`**: the documented conversion
    for `Transformations::IDENTITY` leaves every scanline of the image as it is, the documented output line size and
    bits per pixel are the header's, and `specPixelsT` is `specPixels` -/
theorem C08_identity_flags_is_C01 (h : Header) (hv : h.Valid) (i : Info) (ti : Transform.Info) (hc : i.color = h.color)
    (hd : i.depth = h.depth) (hti : tInfo i = some ti) (hdec : Transform.Decodable ti) (raw bg : Bytes) (hraw : RawOk h raw) :
    Transform.specOutputLineSize ti (tFlags {}) h.width = h.lineSize ∧
    (Transform.specOutputColor ti (tFlags {})).samples * Transform.specOutputDepth ti (tFlags {}) = h.bitsPerPixel ∧
    specPixelsT h (fun w row => Transform.specConvert ti (tFlags {}) row w) h.lineSize h.bitsPerPixel raw bg =
      specPixels h raw bg := by
  have hleg : (i.color, i.depth) ∈ legalPairs := by rw [hc, hd]; exact hv.2.2.2.2
  have hdh : depthOk h.depth = true := (legal_pos hv.2.2.2.2).2.2
  obtain ⟨hcv, hout, hid⟩ := identity_converts realT {} realT_isIdentity i hleg h.width
  refine ⟨?_, ?_, ?_⟩
  · rw [← realT_outLine hti {} h.width, outLineSize_id realT_isIdentity, hc, hd]
    exact (rowBytes_eq h hdh h.width).symm
  · have := realT_out hti {}
    rw [hout] at this
    simp only [Prod.mk.injEq] at this
    rw [← samplesOf_toNat, ← this.1, ← this.2, hc, hd]; rfl
  · rw [← specPixelsT_id]
    refine specPixelsT_congr h _ _ _ _ raw bg hraw ?_
    intro w row _ hrow
    have hlen : row.length + 1 = rawRowLengthFromWidth i.color i.depth w := by
      rw [hrow, rowBytes_eq h hdh, hc, hd]
      have := rowlen_spec h.color h.depth w hdh
      omega
    show Transform.specConvert ti (tFlags {}) row w = row
    rw [← realT_conv hti hdec {} row w hlen, hid row w hlen]

/-- **Adam7, pixel by pixel.**  For an interlaced image, every flag set and decodable metadata of the header's type,
    into a buffer `bg` of the output image's size: `specPixelsT` exists and has that size; the field of OUTPUT pixel
    `(x, y)` (`outBits` bits at `y · line · 8 + x · outBits`) holds output pixel number `specSrc(x, y).index` of the
    DOCUMENTED conversion of the specification's reconstructed scanline `specSrc(x, y).(pass, line)` (`Adam7.specSrc`,
    C15: the placement of the specification's 8×8 pattern); every bit outside the pixel fields is the buffer's. -/
theorem C08_interlaced_pixels (h : Header) (hv : h.Valid) (hil : h.interlaced = true) (raw : Bytes) (hraw : RawOk h raw)
    (i : Info) (ti : Transform.Info) (hc : i.color = h.color) (hd : i.depth = h.depth) (hti : tInfo i = some ti)
    (hdec : Transform.Decodable ti) (f : Flags) (bg : Bytes)
    (hbg : bg.length = Transform.specOutputLineSize ti (tFlags f) h.width * h.height) :
    ∃ buf,
      specPixelsT h (fun w row => Transform.specConvert ti (tFlags f) row w)
        (Transform.specOutputLineSize ti (tFlags f) h.width)
        ((Transform.specOutputColor ti (tFlags f)).samples * Transform.specOutputDepth ti (tFlags f)) raw bg = some buf ∧
      buf.length = bg.length ∧
      (∀ x y t, x < h.width → y < h.height →
        t < (Transform.specOutputColor ti (tFlags f)).samples * Transform.specOutputDepth ti (tFlags f) →
        Adam7.bitAt buf (Adam7.pixelBit (Transform.specOutputLineSize ti (tFlags f) h.width)
            ((Transform.specOutputColor ti (tFlags f)).samples * Transform.specOutputDepth ti (tFlags f)) x y + t) =
          Adam7.bitAt (Transform.specConvert ti (tFlags f) (specPassRow h raw (Adam7.specSrc x y).1 (Adam7.specSrc x y).2.1)
              (Adam7.passW h.width (Adam7.specSrc x y).1))
            ((Adam7.specSrc x y).2.2 *
              ((Transform.specOutputColor ti (tFlags f)).samples * Transform.specOutputDepth ti (tFlags f)) + t)) ∧
      (∀ k, (∀ x y, x < h.width → y < h.height →
          ¬ (Adam7.pixelBit (Transform.specOutputLineSize ti (tFlags f) h.width)
                ((Transform.specOutputColor ti (tFlags f)).samples * Transform.specOutputDepth ti (tFlags f)) x y ≤ k ∧
             k < Adam7.pixelBit (Transform.specOutputLineSize ti (tFlags f) h.width)
                ((Transform.specOutputColor ti (tFlags f)).samples * Transform.specOutputDepth ti (tFlags f)) x y +
                (Transform.specOutputColor ti (tFlags f)).samples * Transform.specOutputDepth ti (tFlags f))) →
        Adam7.bitAt buf k = Adam7.bitAt bg k) := by
  have hcv := realT_converts hti hdec f h.width
  have hout := realT_out hti f
  have hdh : depthOk h.depth = true := (legal_pos hv.2.2.2.2).2.2
  have hod := (legal_pos hcv.outLegal).2.2
  have hbits : samplesOf (realT.outColorDepth i f).1 * (realT.outColorDepth i f).2 =
      (Transform.specOutputColor ti (tFlags f)).samples * Transform.specOutputDepth ti (tFlags f) := by
    rw [hout, samplesOf_toNat]
  have hline : ∀ w, Transform.specOutputLineSize ti (tFlags f) w =
      rawRowLengthFromWidth (realT.outColorDepth i f).1 (realT.outColorDepth i f).2 w - 1 := fun w => by
    rw [← realT_outLine hti f w]; rfl
  rw [← hbits]
  refine specPixelsT_interlaced_pixels h hv hil raw hraw _ _ _ (legal_validBits hcv.outLegal) ?_ ?_ bg hbg
  · rw [hline]; exact rowlen_bits hod
  · intro p l wd hm
    have hlen : (specPassRow h raw p l).length + 1 = rawRowLengthFromWidth i.color i.depth wd := by
      rw [specPassRow_length h hil raw hraw p l wd hm, rowBytes_eq h hdh, hc, hd]
      have := rowlen_spec h.color h.depth wd hdh
      omega
    show wd * _ ≤ (Transform.specConvert ti (tFlags f) (specPassRow h raw p l) wd).length * 8
    rw [(realT_apply_spec hti hdec f _ wd hlen).2, outLineSize_eq]
    exact rowlen_bits hod

/-! ## Row by row -/

/-- **C08 end to end, row by row, for any row transformation.**  The hypotheses of `C08_decode_generic`; the caller
    pulls the image with `next_row` instead of `next_frame`: one call per scanline of the header (the image rows, or the
    rows of the seven reduced images in transmission order) returns the specification's reconstructed scanline
    converted by the transformation, with its `InterlaceInfo`; one more call returns `None`. -/
theorem C08_decode_rows_generic (cfg : Cfg) (t : TCfg) (f : Flags) (opts : Options) (limit : Nat) (h : Header) (anc : Bytes)
    (dA : Dec) (i : Info) (zs : List Bytes) (raw : Bytes) (post : List (ChunkType × Bytes))
    (hI : cfg.InflateOk) (hC : cfg.CrcOk) (hv : h.Valid)
    (hanc : AncTrace cfg (afterIhdr cfg opts limit h) anc dA) (hidle : Idle dA h.info.core) (hiA : dA.info = some i)
    (hcv : t.Converts f i h.width)
    (hzs : zs ≠ []) (hlen : ∀ z ∈ zs, z.length < 2 ^ 32) (hinf : cfg.inflate zs.flatten = some (raw, true))
    (hraw : RawOk h raw) (hpost : ∀ c ∈ post, c.1 ≠ IDAT ∧ c.1 < 2 ^ 32 ∧ c.2.length < 2 ^ 32)
    (hod0 : depthOk (t.outColorDepth h.info f).2 = true) (hsize : outLineSize t h.info f h.width * h.height < 2 ^ 64)
    (hsize2 : outLineSize t i f h.width * h.height < 2 ^ 64)
    (hlimit : outLineSize t i f h.width ≤ dA.limit) :
    (Reader.run cfg t
      (R.init opts limit f
        (signature ++ chunk cfg IHDR h.body ++ anc ++ idats cfg zs ++ chunks cfg post ++ chunk cfg IEND [])
        (signature ++ chunk cfg IHDR h.body ++ anc ++ idats cfg zs ++ chunks cfg post ++ chunk cfg IEND []).length)
      (.readInfo :: List.replicate (h.scanlines.length + 1) .nextRow)).2 =
      .header :: (((h.scanlines.zip (specScanlines h raw)).map fun x =>
        Reader.Res.row (iinfoOf h.interlaced x.1) (t.conv f i x.1.2.2 x.2)) ++ [.noRow]) := by
  obtain ⟨len', t', rest', htail, h1, h2, h3⟩ := C01.tail_shape cfg post hpost
  cases zs with
  | nil => exact absurd rfl hzs
  | cons z zs =>
    have hfile : signature ++ chunk cfg IHDR h.body ++ anc ++ idats cfg (z :: zs) ++ chunks cfg post ++ chunk cfg IEND [] =
        signature ++ (chunk cfg IHDR h.body ++ (anc ++ (idats cfg (z :: zs) ++ (be32Bytes len' ++ typeBytes t' ++ rest')))) := by
      rw [← htail]; simp only [List.append_assoc]
    rw [hfile]
    exact decodeT_rows_wf cfg hI hC t f opts limit h hv anc dA i hanc hidle hiA hcv z zs raw (hlen z (by simp))
      (fun z' hz' => hlen z' (by simp [hz'])) hinf hraw len' t' rest' h1 h2 h3 hod0 hsize hsize2 hlimit

/-- **C08 end to end, row by row**, for the model's real transformation: every `next_row` call returns the DOCUMENTED
    conversion `specConvert` of the specification's next scanline (of the image, or of a reduced image for Adam7) -/
theorem C08_decode_rows (cfg : Cfg) (f : Flags) (opts : Options) (limit : Nat) (h : Header) (anc : Bytes) (dA : Dec) (i : Info)
    (ti : Transform.Info) (zs : List Bytes) (raw : Bytes) (post : List (ChunkType × Bytes))
    (hI : cfg.InflateOk) (hC : cfg.CrcOk) (hv : h.Valid)
    (hanc : AncTrace cfg (afterIhdr cfg opts limit h) anc dA) (hidle : Idle dA h.info.core) (hiA : dA.info = some i)
    (hti : tInfo i = some ti) (hdec : Transform.Decodable ti)
    (hzs : zs ≠ []) (hlen : ∀ z ∈ zs, z.length < 2 ^ 32) (hinf : cfg.inflate zs.flatten = some (raw, true))
    (hraw : RawOk h raw) (hpost : ∀ c ∈ post, c.1 ≠ IDAT ∧ c.1 < 2 ^ 32 ∧ c.2.length < 2 ^ 32)
    (hsize : Transform.specOutputLineSize ti (tFlags f) h.width * h.height < 2 ^ 64)
    (hlimit : Transform.specOutputLineSize ti (tFlags f) h.width ≤ dA.limit) :
    (Reader.run cfg realT
      (R.init opts limit f
        (signature ++ chunk cfg IHDR h.body ++ anc ++ idats cfg zs ++ chunks cfg post ++ chunk cfg IEND [])
        (signature ++ chunk cfg IHDR h.body ++ anc ++ idats cfg zs ++ chunks cfg post ++ chunk cfg IEND []).length)
      (.readInfo :: List.replicate (h.scanlines.length + 1) .nextRow)).2 =
      .header :: (((h.scanlines.zip (specScanlines h raw)).map fun x =>
        Reader.Res.row (iinfoOf h.interlaced x.1) (Transform.specConvert ti (tFlags f) x.2 x.1.2.2)) ++ [.noRow]) := by
  obtain ⟨j, hj, hcj, _⟩ := hidle.info
  have hji : j = i := by rw [hiA] at hj; cases hj; rfl
  subst hji
  simp only [Info.core, Header.info, Prod.mk.injEq] at hcj
  obtain ⟨_, _, c3, c4, _⟩ := hcj
  have hc0 : h.info.color = j.color := c4.symm
  have hd0 : h.info.depth = j.depth := c3.symm
  have hle := realT_outLine_header_le hti hc0 hd0 rfl rfl f h.width
  have hols := realT_outLine hti f h.width
  rw [C08_decode_rows_generic cfg realT f opts limit h anc dA j zs raw post hI hC hv hanc hidle hiA
    (realT_converts hti hdec f h.width) hzs hlen hinf hraw hpost
    (realT_out_header_depthOk hti hdec.legal hc0 hd0 rfl rfl f)
    (Nat.lt_of_le_of_lt (Nat.mul_le_mul_right _ hle) (by rw [hols]; exact hsize))
    (by rw [hols]; exact hsize)
    (by rw [hols]; exact hlimit)]
  congr 2
  refine List.map_congr_left fun x hx => ?_
  have hrow := unfilterScanlines_rowlen h.filterUnit h.rowBytes h.scanlines [] raw hraw x hx
  have hdh : depthOk h.depth = true := (legal_pos hv.2.2.2.2).2.2
  rw [realT_conv hti hdec f x.2 x.1.2.2 (by
    rw [hrow, rowBytes_eq h hdh, ← hc0, ← hd0]
    have := rowlen_spec h.color h.depth x.1.2.2 hdh
    show rawRowLengthFromWidth h.color h.depth x.1.2.2 - 1 + 1 = rawRowLengthFromWidth h.color h.depth x.1.2.2
    omega)]

/-! ## The property as stated: decoding with flags = the documented conversion of decoding without -/

/-- **the documented conversion commutes with de-interlacing**: for BOTH interlace methods and every flag set,
    `specPixelsT` for the documented conversion is the specification's image `specPixels` (C01: the pixels decoding
    without transformations returns) cut into its rows, each row converted by `specConvert`, concatenated.  (The
    conversion works pixel by pixel — `Transform.specConvert_pixels`, `Transform.pixelOf_of_bits` — and
    `Adam7.deinterlace` moves whole pixels — `Adam7.deinterlace_spec`.) -/
theorem specPixelsT_is_converted_image (h : Header) (hv : h.Valid) (raw : Bytes) (hraw : RawOk h raw)
    (ti : Transform.Info) (hc : ti.colorType.toNat = h.color) (hd : ti.bitDepth.toNat = h.depth)
    (f : Transform.Flags) (p : UInt8) (b0 : Bytes)
    (h0 : specPixels h raw (List.replicate h.bufferSize p) = some b0) :
    specPixelsT h (fun w row => Transform.specConvert ti f row w) (Transform.specOutputLineSize ti f h.width)
      ((Transform.specOutputColor ti f).samples * Transform.specOutputDepth ti f) raw
      (List.replicate (Transform.specOutputLineSize ti f h.width * h.height) p) =
      some ((Transform.chunksN h.lineSize h.height b0).flatMap fun row => Transform.specConvert ti f row h.width) :=
  specPixelsT_of_image h hv raw hraw ti hc hd f p b0 h0

/-- **C08 as the property states it.**  For every well-formed still image (hypotheses of `C08_decode`; both interlace
    methods) and every subset `f` of {EXPAND, STRIP_16, ALPHA}: decode the SAME file twice with the model's real
    transformation — once with no flags, once with `f` — each time `read_info` and `next_frame` into a buffer of
    `output_buffer_size()` bytes pre-filled with `p`.  Both succeed (each under its own two size checks); the first
    returns the header's geometry and the identity-decoded pixels `b0` (= `specPixels`, C01); the second returns the
    documented output geometry and EXACTLY `b0` cut into its `height` rows of `line_size` bytes, each converted by the
    documented conversion `specConvert`, concatenated. -/
theorem C08_decode_vs_identity (cfg : Cfg) (f : Flags) (opts : Options) (limit : Nat) (h : Header) (anc : Bytes) (dA : Dec)
    (i : Info) (ti : Transform.Info) (zs : List Bytes) (raw : Bytes) (post : List (ChunkType × Bytes)) (p : UInt8)
    (hI : cfg.InflateOk) (hC : cfg.CrcOk) (hv : h.Valid)
    (hanc : AncTrace cfg (afterIhdr cfg opts limit h) anc dA) (hidle : Idle dA h.info.core) (hiA : dA.info = some i)
    (hti : tInfo i = some ti) (hdec : Transform.Decodable ti)
    (hzs : zs ≠ []) (hlen : ∀ z ∈ zs, z.length < 2 ^ 32) (hinf : cfg.inflate zs.flatten = some (raw, true))
    (hraw : RawOk h raw) (hpost : ∀ c ∈ post, c.1 ≠ IDAT ∧ c.1 < 2 ^ 32 ∧ c.2.length < 2 ^ 32)
    (hsize0 : h.lineSize * h.height < 2 ^ 64) (hlimit0 : h.lineSize ≤ dA.limit)
    (hsize : Transform.specOutputLineSize ti (tFlags f) h.width * h.height < 2 ^ 64)
    (hlimit : Transform.specOutputLineSize ti (tFlags f) h.width ≤ dA.limit) :
    ∃ b0 buf,
      (Reader.run cfg realT
        (R.init opts limit {}
          (signature ++ chunk cfg IHDR h.body ++ anc ++ idats cfg zs ++ chunks cfg post ++ chunk cfg IEND [])
          (signature ++ chunk cfg IHDR h.body ++ anc ++ idats cfg zs ++ chunks cfg post ++ chunk cfg IEND []).length)
        [.readInfo, .nextFrame p]).2 =
        [.header, .frame { width := h.width, height := h.height, color := h.color, depth := h.depth,
                           lineSize := h.lineSize } b0] ∧
      (Reader.run cfg realT
        (R.init opts limit f
          (signature ++ chunk cfg IHDR h.body ++ anc ++ idats cfg zs ++ chunks cfg post ++ chunk cfg IEND [])
          (signature ++ chunk cfg IHDR h.body ++ anc ++ idats cfg zs ++ chunks cfg post ++ chunk cfg IEND []).length)
        [.readInfo, .nextFrame p]).2 =
        [.header, .frame { width := h.width, height := h.height,
                           color := (Transform.specOutputColor ti (tFlags f)).toNat,
                           depth := Transform.specOutputDepth ti (tFlags f),
                           lineSize := Transform.specOutputLineSize ti (tFlags f) h.width } buf] ∧
      buf = (Transform.chunksN h.lineSize h.height b0).flatMap
        (fun row => Transform.specConvert ti (tFlags f) row h.width) ∧
      b0.length = h.lineSize * h.height ∧
      buf.length = Transform.specOutputLineSize ti (tFlags f) h.width * h.height := by
  obtain ⟨b0, r0, s0, l0⟩ := C01.C01_decode cfg realT {} opts limit h anc dA zs raw post p hI hC realT_isIdentity hv hanc hidle
    hzs hlen hinf hraw hpost hsize0 hlimit0
  obtain ⟨buf, r1, s1, l1⟩ := C08_decode cfg f opts limit h anc dA i ti zs raw post p hI hC hv hanc hidle hiA hti hdec hzs hlen
    hinf hraw hpost hsize hlimit
  obtain ⟨j, hj, hcj, _⟩ := hidle.info
  have hji : j = i := by rw [hiA] at hj; cases hj; rfl
  subst hji
  simp only [Info.core, Header.info, Prod.mk.injEq] at hcj
  obtain ⟨_, _, c3, c4, _⟩ := hcj
  obtain ⟨t1, t2, _, _⟩ := tInfo_fields hti
  rw [specPixelsT_of_image h hv raw hraw ti (t1.trans c4) (t2.trans c3) (tFlags f) p b0 s0] at s1
  exact ⟨b0, buf, r0, r1, (Option.some.inj s1).symm, l0, l1⟩


/-! ## `PLTE` and `tRNS` given explicitly -/

/-- the optional `tRNS` chunk -/
def trnsChunk : Option Bytes → List (ChunkType × Bytes)
  | none => []
  | some v => [(tRNS, v)]

/-- the bit depths as `Transform.BitDepth` -/
def bitDepthOf (d : Nat) : Transform.BitDepth :=
  if d = 1 then .one else if d = 2 then .two else if d = 4 then .four else if d = 8 then .eight else .sixteen

/-- **C08 end to end for an indexed image**: `IHDR`, a `PLTE` chunk of ANY contents `pal` (any length that fits the
    chunk buffer and the limit: not a multiple of 3, more than 256 entries, empty), optionally a `tRNS` chunk of any
    contents, the image data, `IEND`.  No hypothesis about the decoder's state is left: the metadata the conversion
    uses is `⟨indexed, depth, some pal, trns⟩`. -/
theorem C08_decode_indexed (cfg : Cfg) (f : Flags) (opts : Options) (limit : Nat) (h : Header) (pal : Bytes)
    (trns : Option Bytes) (zs : List Bytes) (raw : Bytes) (post : List (ChunkType × Bytes)) (p : UInt8)
    (hI : cfg.InflateOk) (hC : cfg.CrcOk) (hv : h.Valid) (hcol : h.color = 3)
    (hpal : pal.length ≤ Params.chunkBufferSize) (htr : ∀ v, trns = some v → v.length ≤ Params.chunkBufferSize)
    (hzs : zs ≠ []) (hlen : ∀ z ∈ zs, z.length < 2 ^ 32) (hinf : cfg.inflate zs.flatten = some (raw, true))
    (hraw : RawOk h raw) (hpost : ∀ c ∈ post, c.1 ≠ IDAT ∧ c.1 < 2 ^ 32 ∧ c.2.length < 2 ^ 32)
    (hsize : Transform.specOutputLineSize ⟨.indexed, bitDepthOf h.depth, some pal, trns⟩ (tFlags f) h.width * h.height < 2 ^ 64)
    (hlimit : pal.length + (trns.getD []).length +
      Transform.specOutputLineSize ⟨.indexed, bitDepthOf h.depth, some pal, trns⟩ (tFlags f) h.width ≤ limit) :
    ∃ buf,
      (Reader.run cfg realT
        (R.init opts limit f (wellFormedStill cfg h ((PLTE, pal) :: trnsChunk trns) zs post)
          (wellFormedStill cfg h ((PLTE, pal) :: trnsChunk trns) zs post).length)
        [.readInfo, .nextFrame p]).2 =
        [.header, .frame { width := h.width, height := h.height,
                           color := (Transform.specOutputColor ⟨.indexed, bitDepthOf h.depth, some pal, trns⟩ (tFlags f)).toNat,
                           depth := Transform.specOutputDepth ⟨.indexed, bitDepthOf h.depth, some pal, trns⟩ (tFlags f),
                           lineSize := Transform.specOutputLineSize ⟨.indexed, bitDepthOf h.depth, some pal, trns⟩ (tFlags f) h.width }
                  buf] ∧
      specPixelsT h (fun w row => Transform.specConvert ⟨.indexed, bitDepthOf h.depth, some pal, trns⟩ (tFlags f) row w)
        (Transform.specOutputLineSize ⟨.indexed, bitDepthOf h.depth, some pal, trns⟩ (tFlags f) h.width)
        ((Transform.specOutputColor ⟨.indexed, bitDepthOf h.depth, some pal, trns⟩ (tFlags f)).samples *
          Transform.specOutputDepth ⟨.indexed, bitDepthOf h.depth, some pal, trns⟩ (tFlags f)) raw
        (List.replicate (Transform.specOutputLineSize ⟨.indexed, bitDepthOf h.depth, some pal, trns⟩ (tFlags f) h.width * h.height) p)
        = some buf ∧
      buf.length = Transform.specOutputLineSize ⟨.indexed, bitDepthOf h.depth, some pal, trns⟩ (tFlags f) h.width * h.height := by
  have hleg := hv.2.2.2.2
  have hdep : h.depth = 1 ∨ h.depth = 2 ∨ h.depth = 4 ∨ h.depth = 8 := by
    rw [hcol] at hleg
    simp only [legalPairs, List.mem_cons, Prod.mk.injEq, List.mem_nil_iff, or_false] at hleg
    omega
  have hcb : Params.chunkBufferSize < 2 ^ 32 := by decide
  -- `PLTE`
  obtain ⟨d1, s1, i1, l1, k1, hi1, _⟩ := ancStep_PLTE cfg (afterIhdr cfg opts limit h) h.info pal rfl rfl
    (by show pal.length ≤ limit; omega) hpal (by omega)
  -- `tRNS`
  have htrns : ∃ dA, AncChunks cfg d1 (trnsChunk trns) dA ∧
      dA.info = some { h.info with palette := some pal, trns := trns } ∧ dA.limit = limit - pal.length - (trns.getD []).length := by
    cases trns with
    | none => exact ⟨d1, .nil _, i1, by rw [l1]; rfl⟩
    | some v =>
      obtain ⟨d2, s2, i2, l2, _⟩ := ancStep_tRNS cfg d1 _ v i1 rfl (by rw [hi1]; rfl)
        (by rw [l1]; show v.length ≤ limit - pal.length; simp only [Option.getD_some] at hlimit; omega)
        (by rw [k1]; exact htr v rfl) (by have := htr v rfl; omega)
        (Or.inr (Or.inr ⟨hcol, rfl⟩))
      refine ⟨d2, .cons s2 (.nil _), ?_, ?_⟩
      · rw [i2]
        have : storedTrns h.info.color h.info.depth v = v := by
          show storedTrns h.color h.depth v = v
          rw [hcol]; rfl
        show some { ({ h.info with palette := some pal } : Info) with
          trns := some (storedTrns h.info.color h.info.depth v) } = _
        rw [this]
      · rw [l2, l1]; rfl
  obtain ⟨dA, hcs2, hiA, hlA⟩ := htrns
  have hti : tInfo { h.info with palette := some pal, trns := trns } =
      some ⟨.indexed, bitDepthOf h.depth, some pal, trns⟩ := by
    show (do
      let ct ← Transform.ColorType.ofNat? h.color
      let bd ← Transform.BitDepth.ofNat? h.depth
      some ({ colorType := ct, bitDepth := bd, palette := some pal, trns := trns } : Transform.Info)) = _
    rw [hcol]
    rcases hdep with hd | hd | hd | hd <;> rw [hd] <;> rfl
  have hdec : Transform.Decodable ⟨.indexed, bitDepthOf h.depth, some pal, trns⟩ := by
    refine ⟨?_, fun _ => rfl, fun t _ hc => by rcases hc with hc | hc <;> cases hc⟩
    rcases hdep with hd | hd | hd | hd <;> rw [hd] <;> rfl
  exact C08_decode_chunks cfg f opts limit h ((PLTE, pal) :: trnsChunk trns) dA _ _ zs raw post p hI hC hv
    (.cons s1 hcs2) hiA hti hdec hzs hlen hinf hraw hpost hsize (by rw [hlA]; omega)

/-- the colour types 0 and 2 as `Transform.ColorType` -/
def keyColorOf (c : Nat) : Transform.ColorType := if c = 0 then .gray else .rgb

/-- **C08 end to end for a grayscale / RGB image with a colour key**: `IHDR`, a `tRNS` chunk with one two-byte
    sample per channel, the image data, `IEND`.  The key the conversion uses is what `parse_trns` stores
    (`storedTrns`: below 16 bits the low byte of each sample).  No hypothesis about the decoder's state is left. -/
theorem C08_decode_key (cfg : Cfg) (f : Flags) (opts : Options) (limit : Nat) (h : Header) (key : Bytes)
    (zs : List Bytes) (raw : Bytes) (post : List (ChunkType × Bytes)) (p : UInt8)
    (hI : cfg.InflateOk) (hC : cfg.CrcOk) (hv : h.Valid) (hcol : h.color = 0 ∨ h.color = 2)
    (hkey : key.length = 2 * samplesOf h.color)
    (hzs : zs ≠ []) (hlen : ∀ z ∈ zs, z.length < 2 ^ 32) (hinf : cfg.inflate zs.flatten = some (raw, true))
    (hraw : RawOk h raw) (hpost : ∀ c ∈ post, c.1 ≠ IDAT ∧ c.1 < 2 ^ 32 ∧ c.2.length < 2 ^ 32)
    (hsize : Transform.specOutputLineSize ⟨keyColorOf h.color, bitDepthOf h.depth, none,
      some (storedTrns h.color h.depth key)⟩ (tFlags f) h.width * h.height < 2 ^ 64)
    (hlimit : key.length + Transform.specOutputLineSize ⟨keyColorOf h.color, bitDepthOf h.depth, none,
      some (storedTrns h.color h.depth key)⟩ (tFlags f) h.width ≤ limit) :
    ∃ buf,
      (Reader.run cfg realT
        (R.init opts limit f (wellFormedStill cfg h [(tRNS, key)] zs post)
          (wellFormedStill cfg h [(tRNS, key)] zs post).length)
        [.readInfo, .nextFrame p]).2 =
        [.header, .frame
          { width := h.width, height := h.height,
            color := (Transform.specOutputColor ⟨keyColorOf h.color, bitDepthOf h.depth, none,
              some (storedTrns h.color h.depth key)⟩ (tFlags f)).toNat,
            depth := Transform.specOutputDepth ⟨keyColorOf h.color, bitDepthOf h.depth, none,
              some (storedTrns h.color h.depth key)⟩ (tFlags f),
            lineSize := Transform.specOutputLineSize ⟨keyColorOf h.color, bitDepthOf h.depth, none,
              some (storedTrns h.color h.depth key)⟩ (tFlags f) h.width } buf] ∧
      specPixelsT h (fun w row => Transform.specConvert ⟨keyColorOf h.color, bitDepthOf h.depth, none,
          some (storedTrns h.color h.depth key)⟩ (tFlags f) row w)
        (Transform.specOutputLineSize ⟨keyColorOf h.color, bitDepthOf h.depth, none,
          some (storedTrns h.color h.depth key)⟩ (tFlags f) h.width)
        ((Transform.specOutputColor ⟨keyColorOf h.color, bitDepthOf h.depth, none,
            some (storedTrns h.color h.depth key)⟩ (tFlags f)).samples *
          Transform.specOutputDepth ⟨keyColorOf h.color, bitDepthOf h.depth, none,
            some (storedTrns h.color h.depth key)⟩ (tFlags f)) raw
        (List.replicate (Transform.specOutputLineSize ⟨keyColorOf h.color, bitDepthOf h.depth, none,
          some (storedTrns h.color h.depth key)⟩ (tFlags f) h.width * h.height) p) = some buf ∧
      buf.length = Transform.specOutputLineSize ⟨keyColorOf h.color, bitDepthOf h.depth, none,
        some (storedTrns h.color h.depth key)⟩ (tFlags f) h.width * h.height := by
  have hleg := hv.2.2.2.2
  have hklen : key.length ≤ 6 := by rcases hcol with hc | hc <;> rw [hkey, hc] <;> decide
  obtain ⟨dA, s1, i1, l1, _⟩ := ancStep_tRNS cfg (afterIhdr cfg opts limit h) h.info key rfl rfl rfl
    (by show key.length ≤ limit; omega) (by show key.length ≤ Params.chunkBufferSize; have : 6 ≤ Params.chunkBufferSize := by decide
                                            omega) (by omega)
    (by
      rcases hcol with hc | hc
      · exact Or.inl ⟨hc, by rw [hkey, hc]; decide⟩
      · exact Or.inr (Or.inl ⟨hc, by rw [hkey, hc]; decide⟩))
  have hcases : (h.color = 0 ∧ (h.depth = 1 ∨ h.depth = 2 ∨ h.depth = 4 ∨ h.depth = 8 ∨ h.depth = 16)) ∨
      (h.color = 2 ∧ (h.depth = 8 ∨ h.depth = 16)) := by
    simp only [legalPairs, List.mem_cons, Prod.mk.injEq, List.mem_nil_iff, or_false] at hleg
    omega
  have hti : tInfo { h.info with trns := some (storedTrns h.info.color h.info.depth key) } =
      some ⟨keyColorOf h.color, bitDepthOf h.depth, none, some (storedTrns h.color h.depth key)⟩ := by
    show (do
      let ct ← Transform.ColorType.ofNat? h.color
      let bd ← Transform.BitDepth.ofNat? h.depth
      some ({ colorType := ct, bitDepth := bd, palette := none, trns := some (storedTrns h.color h.depth key) } : Transform.Info)) = _
    rcases hcases with ⟨hc, hd | hd | hd | hd | hd⟩ | ⟨hc, hd | hd⟩ <;> rw [hc, hd] <;> rfl
  have hdec : Transform.Decodable ⟨keyColorOf h.color, bitDepthOf h.depth, none, some (storedTrns h.color h.depth key)⟩ := by
    refine ⟨?_, ?_, ?_⟩
    · rcases hcases with ⟨hc, hd | hd | hd | hd | hd⟩ | ⟨hc, hd | hd⟩ <;> rw [hc, hd] <;> rfl
    · intro hx; rcases hcol with hc | hc <;> rw [hc] at hx <;> cases hx
    · intro t ht _
      simp only [Option.some.injEq] at ht
      subst ht
      rcases hcases with ⟨hc, hd | hd | hd | hd | hd⟩ | ⟨hc, hd | hd⟩ <;> rw [hc] at hkey <;> rw [hc, hd] <;>
        simp [storedTrns, keyColorOf, bitDepthOf, Transform.ColorType.samples, samplesOf] at hkey ⊢ <;> omega
  exact C08_decode_chunks cfg f opts limit h [(tRNS, key)] dA _ _ zs raw post p hI hC hv
    (.cons s1 (.nil _)) i1 hti hdec hzs hlen hinf hraw hpost hsize (by rw [l1]; show _ ≤ limit - key.length; omega)


/-! ## Non-vacuity: the hypotheses hold on concrete streams (toy inflater / CRC of `Proofs/FramingToy.lean`, the REAL
    transformation), and the model returns there what the theorems say -/

section Examples
open Png.Framing.Toy

/-- EXPAND -/
def fExpand : Flags := { expand := true }
/-- STRIP_16 | EXPAND -/
def fStripExpand : Flags := { expand := true, strip16 := true }

/-! ### a 2×2 indexed image (2 bits per pixel) with `PLTE` (three entries) and `tRNS` (two entries) under EXPAND -/

def hIdx : Header := ⟨2, 2, 3, 2, false⟩
def palIdx : Bytes := [10, 20, 30, 40, 50, 60, 70, 80, 90]
def trIdx : Bytes := [0, 128]
/-- two scanlines, filter type None: indices 0, 1 / 2, 3 -/
def rawIdx : Bytes := [0, 0x10, 0, 0xB0]
/-- the toy zlib stream cut into two `IDAT` chunks -/
def zsIdx : List Bytes := [[4, 0, 0x10], [0, 0xB0]]
/-- the metadata the conversion reads -/
def tiIdx : Transform.Info := ⟨.indexed, .two, some palIdx, some trIdx⟩

example : hIdx.Valid ∧ toyCfg.inflate zsIdx.flatten = some (rawIdx, true) ∧ RawOk hIdx rawIdx ∧
    specScanlines hIdx rawIdx = [[0x10], [0xB0]] := by decide

/-- every hypothesis of `C08_decode_indexed` holds for this stream: the theorem applies -/
example :=
  C08_decode_indexed toyCfg fExpand {} (2 ^ 64 - 1) hIdx palIdx (some trIdx) zsIdx rawIdx [] 7 toy_inflateOk C01.toy_crcOk
    (by decide) rfl (by decide) (fun v hv => by cases hv; decide) (by decide) (by decide) (by decide) (by decide)
    (fun _ hc => by cases hc) (by decide) (by decide)

-- the advertised output: RGBA, 8 bits, 8 bytes per line, 32 bits per pixel
example : Transform.specOutputColor tiIdx (tFlags fExpand) = .rgba ∧ Transform.specOutputDepth tiIdx (tFlags fExpand) = 8 ∧
    Transform.specOutputLineSize tiIdx (tFlags fExpand) 2 = 8 := by decide
-- the documented conversion of the two scanlines: entries 0 and 1 with their `tRNS` alpha, entry 2 opaque, index 3
-- (beyond the palette) opaque black
example : specPixelsT hIdx (fun w row => Transform.specConvert tiIdx (tFlags fExpand) row w) 8 32 rawIdx (List.replicate 16 7) =
    some [10, 20, 30, 0, 40, 50, 60, 128, 70, 80, 90, 255, 0, 0, 0, 255] := by decide +kernel
-- ... and this is what the model (real transformation) returns, with the advertised `OutputInfo`
example : (Reader.run toyCfg realT (R.init {} (2 ^ 64 - 1) fExpand
      (wellFormedStill toyCfg hIdx [(PLTE, palIdx), (tRNS, trIdx)] zsIdx [])
      (wellFormedStill toyCfg hIdx [(PLTE, palIdx), (tRNS, trIdx)] zsIdx []).length) [.readInfo, .nextFrame 7]).2 =
    [.header, .frame ⟨2, 2, 6, 8, 8⟩ [10, 20, 30, 0, 40, 50, 60, 128, 70, 80, 90, 255, 0, 0, 0, 255]] := by decide +kernel

-- row by row: the two converted scanlines with their `InterlaceInfo`, then `None`
example : (Reader.run toyCfg realT (R.init {} (2 ^ 64 - 1) fExpand
      (wellFormedStill toyCfg hIdx [(PLTE, palIdx), (tRNS, trIdx)] zsIdx [])
      (wellFormedStill toyCfg hIdx [(PLTE, palIdx), (tRNS, trIdx)] zsIdx []).length)
      [.readInfo, .nextRow, .nextRow, .nextRow]).2 =
    [.header, .row (.null 0) [10, 20, 30, 0, 40, 50, 60, 128], .row (.null 1) [70, 80, 90, 255, 0, 0, 0, 255], .noRow] := by
  decide +kernel
-- the identity-decoded image is `[0x10, 0xB0]`; converting its rows gives the same (`specPixelsT_rows_of_image`)
example : specPixels hIdx rawIdx [] = some [0x10, 0xB0] ∧
    (Transform.chunksN hIdx.lineSize hIdx.height [0x10, 0xB0]).flatMap (fun row => Transform.specConvert tiIdx (tFlags fExpand) row 2) =
      [10, 20, 30, 0, 40, 50, 60, 128, 70, 80, 90, 255, 0, 0, 0, 255] := by decide +kernel

/-! ### a 2×2 16-bit grayscale image, Adam7, with a colour key under STRIP_16 | EXPAND -/

def hG16 : Header := ⟨2, 2, 0, 16, true⟩
def keyG16 : Bytes := [0x12, 0x34]
/-- three scanlines (passes 1, 6, 7), filter type None: 0x1234 (the key) / 0x1235 / 0xABCD, 0x1234 (the key) -/
def rawG16 : Bytes := [0, 0x12, 0x34, 0, 0x12, 0x35, 0, 0xAB, 0xCD, 0x12, 0x34]
/-- the toy zlib stream cut into three `IDAT` chunks, one of them empty -/
def zsG16 : List Bytes := [[11, 0, 0x12, 0x34, 0], [], [0x12, 0x35, 0, 0xAB, 0xCD, 0x12, 0x34]]
def tiG16 : Transform.Info := ⟨.gray, .sixteen, none, some keyG16⟩

example : hG16.Valid ∧ toyCfg.inflate zsG16.flatten = some (rawG16, true) ∧ RawOk hG16 rawG16 ∧
    hG16.scanlines = [(1, 0, 1), (6, 0, 1), (7, 0, 2)] ∧
    specScanlines hG16 rawG16 = [[0x12, 0x34], [0x12, 0x35], [0xAB, 0xCD, 0x12, 0x34]] := by decide

/-- every hypothesis of `C08_decode_key` holds for this stream: the theorem applies -/
example :=
  C08_decode_key toyCfg fStripExpand {} (2 ^ 64 - 1) hG16 keyG16 zsG16 rawG16 [] 0 toy_inflateOk C01.toy_crcOk
    (by decide) (Or.inl rfl) (by decide) (by decide) (by decide) (by decide) (by decide)
    (fun _ hc => by cases hc) (by decide) (by decide)

-- the stored key is the chunk (16 bits); the advertised output: grayscale + alpha, 8 bits, 4 bytes per line
example : storedTrns 0 16 keyG16 = keyG16 ∧ Transform.specOutputColor tiG16 (tFlags fStripExpand) = .grayAlpha ∧
    Transform.specOutputDepth tiG16 (tFlags fStripExpand) = 8 ∧ Transform.specOutputLineSize tiG16 (tFlags fStripExpand) 2 = 4 := by
  decide
-- the converted pass rows: high byte + alpha (0 exactly for the key 0x1234; 0x1235 differs in the low byte only)
example : specPassRowsT hG16 (fun w row => Transform.specConvert tiG16 (tFlags fStripExpand) row w) rawG16 =
    [(⟨1, 0, 1⟩, [0x12, 0]), (⟨6, 0, 1⟩, [0x12, 0xFF]), (⟨7, 0, 2⟩, [0xAB, 0xFF, 0x12, 0])] := by decide +kernel
-- de-interlaced with 16 bits per OUTPUT pixel
example : specPixelsT hG16 (fun w row => Transform.specConvert tiG16 (tFlags fStripExpand) row w) 4 16 rawG16 (List.replicate 8 0) =
    some [0x12, 0, 0x12, 0xFF, 0xAB, 0xFF, 0x12, 0] := by decide +kernel
example : (Reader.run toyCfg realT (R.init {} (2 ^ 64 - 1) fStripExpand
      (wellFormedStill toyCfg hG16 [(tRNS, keyG16)] zsG16 [])
      (wellFormedStill toyCfg hG16 [(tRNS, keyG16)] zsG16 []).length) [.readInfo, .nextFrame 0]).2 =
    [.header, .frame ⟨2, 2, 4, 8, 4⟩ [0x12, 0, 0x12, 0xFF, 0xAB, 0xFF, 0x12, 0]] := by decide +kernel

-- the identity-decoded image (no flags) and its rows converted: the same bytes (`C08_decode_vs_identity`)
example : (Reader.run toyCfg realT (R.init {} (2 ^ 64 - 1) {}
      (wellFormedStill toyCfg hG16 [(tRNS, keyG16)] zsG16 [])
      (wellFormedStill toyCfg hG16 [(tRNS, keyG16)] zsG16 []).length) [.readInfo, .nextFrame 0]).2 =
    [.header, .frame ⟨2, 2, 0, 16, 4⟩ [0x12, 0x34, 0x12, 0x35, 0xAB, 0xCD, 0x12, 0x34]] := by decide +kernel
example : (Transform.chunksN hG16.lineSize hG16.height [0x12, 0x34, 0x12, 0x35, 0xAB, 0xCD, 0x12, 0x34]).flatMap
      (fun row => Transform.specConvert tiG16 (tFlags fStripExpand) row 2) =
    [0x12, 0, 0x12, 0xFF, 0xAB, 0xFF, 0x12, 0] := by decide +kernel

/-! ### the generic theorem with a transformation that is neither the identity nor the model's: 8-bit grayscale to
    grayscale + opaque alpha -/

def addOpaque : Bytes → Bytes
  | [] => []
  | b :: rest => b :: 0xFF :: addOpaque rest

theorem addOpaque_length (row : Bytes) : (addOpaque row).length = 2 * row.length := by
  induction row with
  | nil => rfl
  | cons b rest ih => simp only [addOpaque, List.length_cons, ih]; omega

/-- advertises grayscale + alpha, 8 bits; writes every sample followed by 0xFF -/
def alphaT : TCfg where
  outColorDepth := fun _ _ => (4, 8)
  create := fun _ _ => .ok ()
  apply := fun _ _ _ row n => if n = 2 * row.length then some (addOpaque row) else none

/-- the contract holds for it on every 8-bit grayscale `Info` -/
theorem alphaT_converts (f : Flags) (i : Info) (hc : i.color = 0) (hd : i.depth = 8) (W : Nat) : alphaT.Converts f i W := by
  refine ⟨by show ((4 : Nat), (8 : Nat)) ∈ legalPairs; decide, rfl, fun row w _ _ hrow => ⟨addOpaque row, ?_, ?_⟩⟩
  all_goals
    have h1 : outLineSize alphaT i f w = 2 * row.length := by
      show rawRowLengthFromWidth 4 8 w - 1 = 2 * row.length
      rw [hc, hd, rowlen_spec 0 8 w (by decide)] at hrow
      rw [rowlen_spec 4 8 w (by decide)]
      simp only [samplesOf] at hrow ⊢
      omega
  · show (if outLineSize alphaT i f w = 2 * row.length then some (addOpaque row) else none) = _
    rw [if_pos h1]
  · rw [h1, addOpaque_length]

/-- every hypothesis of `C08_decode_generic` holds for the interlaced 2×2 image of `Png.C01` and `alphaT` -/
example :=
  C08_decode_generic toyCfg alphaT {} {} (2 ^ 64 - 1) C01.hGray2i [] (afterIhdr toyCfg {} (2 ^ 64 - 1) C01.hGray2i) C01.hGray2i.info
    C01.zs2 C01.raw2 [] 7 toy_inflateOk C01.toy_crcOk (by decide) (AncTrace.nil _ _) (idle_afterIhdr _ _ _ _) rfl
    (alphaT_converts _ _ rfl rfl _) (by decide) (by decide) (by decide) (by decide) (fun _ hc => by cases hc) (by decide)
    (by decide) (by decide)

example : specPixelsT C01.hGray2i (alphaT.conv {} C01.hGray2i.info) 4 16 C01.raw2 (List.replicate 8 7) =
    some [10, 0xFF, 20, 0xFF, 30, 0xFF, 35, 0xFF] := by decide +kernel
example : (Reader.run toyCfg alphaT (R.init {} (2 ^ 64 - 1) {} (wellFormedStill toyCfg C01.hGray2i [] C01.zs2 [])
      (wellFormedStill toyCfg C01.hGray2i [] C01.zs2 []).length) [.readInfo, .nextFrame 7]).2 =
    [.header, .frame ⟨2, 2, 4, 8, 4⟩ [10, 0xFF, 20, 0xFF, 30, 0xFF, 35, 0xFF]] := by decide +kernel

end Examples

end Png.C08
